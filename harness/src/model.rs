//! Independent reference model (DESIGN.md §3.3): selection semantics, expected view,
//! independent decoder / locator, and the draft's disclosure-processing algorithm (`Spec`).
//! Shares no code with /repo; uses sha2 / base64 / serde_json as libraries only.

use crate::gen::{path_str, Path, Step};
use base64::Engine;
use serde_json::{json, Map, Value};
use sha2::Digest;
use std::collections::{BTreeMap, BTreeSet, HashMap, HashSet};

pub fn b64e(b: &[u8]) -> String {
    base64::engine::general_purpose::URL_SAFE_NO_PAD.encode(b)
}
pub fn b64d(s: &str) -> Result<Vec<u8>, String> {
    base64::engine::general_purpose::URL_SAFE_NO_PAD
        .decode(s)
        .map_err(|e| e.to_string())
}
/// digest = base64url(SHA-256(ascii text))
pub fn digest_of(text: &str) -> String {
    let mut h = sha2::Sha256::new();
    h.update(text.as_bytes());
    b64e(&h.finalize())
}

// ------------------------------------------------------------------------------------------
// formats

#[derive(Clone, Copy, Debug, PartialEq, Eq, Hash, PartialOrd, Ord)]
pub enum Fmt {
    Compact,
    Json,
}
pub const FMTS: [Fmt; 2] = [Fmt::Compact, Fmt::Json];
impl Fmt {
    pub fn lib(self) -> sd_jwt_rs::SDJWTSerializationFormat {
        match self {
            Fmt::Compact => sd_jwt_rs::SDJWTSerializationFormat::Compact,
            Fmt::Json => sd_jwt_rs::SDJWTSerializationFormat::JSON,
        }
    }
    pub fn name(self) -> &'static str {
        match self {
            Fmt::Compact => "Compact",
            Fmt::Json => "JSON",
        }
    }
    pub fn other(self) -> Fmt {
        match self {
            Fmt::Compact => Fmt::Json,
            Fmt::Json => Fmt::Compact,
        }
    }
}

/// The three components of an SD-JWT / presentation.
#[derive(Clone, Debug, PartialEq, Eq)]
pub struct Parts {
    pub jwt: String,
    pub disclosures: Vec<String>,
    pub kb: Option<String>,
}

/// Write `v` as JSON text that parses to the same document but is spelled differently:
/// mode 1: every character of every member name as \uXXXX; 2: last character of names and first
/// character of string values escaped; 3: pretty-printed white space; 4: one character of the
/// reserved member names (_sd, ..., _sd_alg) and of every string inside arrays escaped;
/// 5: white space + '/' written as "\/" + upper-case hex digits. Mode 0 = serde_json's own text.
pub fn respell(v: &Value, mode: u64) -> String {
    fn esc(c: char, upper: bool, out: &mut String) {
        let mut buf = [0u16; 2];
        for u in c.encode_utf16(&mut buf) {
            if upper {
                out.push_str(&format!("\\u{:04X}", u));
            } else {
                out.push_str(&format!("\\u{:04x}", u));
            }
        }
    }
    fn string(s: &str, mode: u64, is_key: bool, in_array: bool, out: &mut String) {
        let n = s.chars().count();
        let reserved = is_key && (s == "_sd" || s == "..." || s == "_sd_alg");
        out.push('"');
        for (i, c) in s.chars().enumerate() {
            let force = match mode {
                1 => is_key,
                2 => (is_key && i + 1 == n) || (!is_key && i == 0),
                4 => (reserved && i == n / 2) || (!is_key && in_array && i == 0),
                _ => false,
            };
            if force || (c as u32) < 0x20 {
                esc(c, mode == 5, out);
            } else if c == '"' {
                out.push_str("\\\"");
            } else if c == '\\' {
                out.push_str("\\\\");
            } else if c == '/' && mode == 5 {
                out.push_str("\\/");
            } else {
                out.push(c);
            }
        }
        out.push('"');
    }
    fn go(v: &Value, mode: u64, in_array: bool, depth: usize, out: &mut String) {
        let ws = mode == 3 || mode == 5;
        let nl = |out: &mut String, d: usize| {
            if ws {
                out.push('\n');
                for _ in 0..d {
                    out.push_str(if mode == 5 { "\t" } else { "  " });
                }
            }
        };
        match v {
            Value::String(s) => string(s, mode, false, in_array, out),
            Value::Array(a) => {
                out.push('[');
                for (i, e) in a.iter().enumerate() {
                    if i > 0 {
                        out.push(',');
                    }
                    nl(out, depth + 1);
                    go(e, mode, true, depth + 1, out);
                }
                if !a.is_empty() {
                    nl(out, depth);
                }
                out.push(']');
            }
            Value::Object(m) => {
                out.push('{');
                for (i, (k, e)) in m.iter().enumerate() {
                    if i > 0 {
                        out.push(',');
                    }
                    nl(out, depth + 1);
                    string(k, mode, true, false, out);
                    out.push(':');
                    if ws {
                        out.push(' ');
                    }
                    go(e, mode, false, depth + 1, out);
                }
                if !m.is_empty() {
                    nl(out, depth);
                }
                out.push('}');
            }
            other => out.push_str(&other.to_string()),
        }
    }
    if mode == 0 {
        return v.to_string();
    }
    let mut out = String::new();
    go(v, mode, false, 0, &mut out);
    if mode == 5 {
        out.push('\n');
    }
    out
}

/// The forged array-element disclosure that C03 / C10 append to presentations; the generator
/// sometimes places its DIGEST as a plain string value in the claims (an audit log quoting it).
pub fn evil_element_disclosure() -> String {
    b64e(json!(["salt", "EVIL-ELEMENT"]).to_string().as_bytes())
}

/// A validly signed token of the ES256 test issuer with claims no generated credential has.
pub fn foreign_token() -> &'static str {
    static T: std::sync::OnceLock<String> = std::sync::OnceLock::new();
    T.get_or_init(|| crate::api::sign_payload(crate::keys::Alg::ES256, 0, &json!({"iss": "https://issuer.example/A", "exp": 4_102_444_799u64, "foreign#zz;": true}), None))
}

impl Parts {
    /// Independent parser, strict about the grammar of each format.
    pub fn parse(fmt: Fmt, s: &str) -> Result<Parts, String> {
        match fmt {
            Fmt::Compact => {
                let parts: Vec<&str> = s.split('~').collect();
                if parts.len() < 2 {
                    return Err(format!("compact: {} parts", parts.len()));
                }
                let last = parts[parts.len() - 1];
                Ok(Parts {
                    jwt: parts[0].to_string(),
                    disclosures: parts[1..parts.len() - 1].iter().map(|s| s.to_string()).collect(),
                    kb: if last.is_empty() {
                        None
                    } else {
                        Some(last.to_string())
                    },
                })
            }
            Fmt::Json => {
                let v: Value = serde_json::from_str(s).map_err(|e| format!("json: {e}"))?;
                let o = v.as_object().ok_or("json: not an object")?;
                let g = |k: &str| -> Result<String, String> {
                    o.get(k)
                        .and_then(Value::as_str)
                        .map(String::from)
                        .ok_or(format!("json: member {k} missing or not a string"))
                };
                let mut ds = vec![];
                for d in o
                    .get("disclosures")
                    .and_then(Value::as_array)
                    .ok_or("json: disclosures missing or not an array")?
                {
                    ds.push(d.as_str().ok_or("json: disclosure not a string")?.to_string());
                }
                let kb = match o.get("kb_jwt") {
                    None | Some(Value::Null) => None,
                    Some(Value::String(s)) => Some(s.clone()),
                    Some(_) => return Err("json: kb_jwt not a string".into()),
                };
                for k in o.keys() {
                    if !["protected", "payload", "signature", "disclosures", "kb_jwt"].contains(&k.as_str()) {
                        return Err(format!("json: unexpected member {k}"));
                    }
                }
                Ok(Parts {
                    jwt: format!("{}.{}.{}", g("protected")?, g("payload")?, g("signature")?),
                    disclosures: ds,
                    kb,
                })
            }
        }
    }

    pub fn to_compact(&self) -> String {
        let mut s = self.jwt.clone();
        for d in &self.disclosures {
            s.push('~');
            s.push_str(d);
        }
        s.push('~');
        if let Some(k) = &self.kb {
            s.push_str(k);
        }
        s
    }

    /// JSON form. `variant` picks among equivalent encodings of "no KB-JWT" and member order /
    /// extra unknown members (C10). Returns None when the jwt has fewer than three dot-separated parts.
    pub fn to_json(&self, variant: u64) -> Option<String> {
        // a JWT with more than two dots keeps the surplus in the signature member, so that
        // protected + "." + payload + "." + signature is the same string in both formats
        let p: Vec<&str> = self.jwt.splitn(3, '.').collect();
        if p.len() != 3 {
            return None;
        }
        let mut members: Vec<(String, Value)> = vec![
            ("protected".into(), json!(p[0])),
            ("payload".into(), json!(p[1])),
            ("signature".into(), json!(p[2])),
            ("disclosures".into(), json!(self.disclosures)),
        ];
        match (&self.kb, variant % 4) {
            (Some(k), _) => members.push(("kb_jwt".into(), json!(k))),
            (None, 0) | (None, 3) => {}
            (None, 1) => members.push(("kb_jwt".into(), Value::Null)),
            (None, _) => members.push(("extra_unknown".into(), json!({"x": [1, 2]}))),
        }
        if (variant / 4) % 2 == 1 {
            members.reverse();
        }
        if (variant / 8) % 4 == 1 {
            members.push(("zz_unknown".into(), json!("u")));
        }
        if (variant / 8) % 4 == 2 && (variant / 4096) % 2 == 1 {
            // unknown members with literal non-ASCII text in name and value
            members.push(("zz_K\u{f6}ln_\u{1f600}".into(), json!("K\u{f6}ln \u{1f600} \u{4e2d}")));
        }
        // unknown members whose NAMES come from neighbouring serialisations (general JWS JSON,
        // newer drafts): they must be ignored like any other unknown member
        match (variant / 256) % 16 {
            // an intact FOREIGN token (valid signature of the ES256 test issuer, other claims) in an
            // unknown member: the flattened members stay the only source of truth
            9 => members.push(("jwt".into(), json!(foreign_token()))),
            10 => members.push(("token".into(), json!(format!("{}~", foreign_token())))),
            11 => members.push(("compact".into(), json!(foreign_token()))),
            12 => members.push(("credential".into(), json!({"jwt": foreign_token(), "disclosures": []}))),
            13 => members.push(("sd-jwt".into(), json!(foreign_token()))),
            1 => members.push(("header".into(), json!({"kid": "k", "alg": "none"}))),
            2 => members.push(("header".into(), json!({"disclosures": self.disclosures.iter().rev().cloned().collect::<Vec<_>>(), "kb_jwt": "a.b.c"}))),
            3 => members.push(("header".into(), json!("str"))),
            4 => members.push(("signatures".into(), json!([{"protected": p[0], "signature": p[2]}]))),
            5 => members.push(("unprotected".into(), json!({"disclosures": ["WyJzIiwgImsiLCAxXQ"]}))),
            6 => members.push(("key_binding_jwt".into(), json!("a.b.c"))),
            7 => members.push(("_sd".into(), json!(["x"]))),
            8 => members.push(("sd_jwt".into(), json!(self.jwt))),
            _ => {}
        }
        let mut m = Map::new();
        for (k, v) in members {
            m.insert(k, v);
        }
        let mut text = Value::Object(m).to_string();
        // unknown members whose values are legal JSON but not representable as serde_json::Value
        // (spliced in textually): a receiver must skip them like any other unknown member
        let exotic = match (variant / 32) % 8 {
            1 => Some("\"zz_big_exp\":1e400".to_string()),
            2 => Some("\"zz_neg_exp\":-1E+999".to_string()),
            3 => Some(format!("\"zz_long_int\":{}", "9".repeat(400))),
            4 => Some("\"zz_lone_surrogate\":\"\\ud800\"".to_string()),
            5 => Some(format!("\"zz_nested\":{}{}", "[".repeat(60), "]".repeat(60))),
            _ => None,
        };
        if let Some(x) = exotic {
            text.pop();
            text.push(',');
            text.push_str(&x);
            text.push('}');
        }
        Some(text)
    }

    pub fn encode(&self, fmt: Fmt, variant: u64) -> Option<String> {
        match fmt {
            Fmt::Compact => Some(self.to_compact()),
            Fmt::Json => self.to_json(variant),
        }
    }

    /// Can this triple be expressed in the compact grammar without changing how it splits?
    pub fn compact_representable(&self) -> bool {
        !self.jwt.contains('~')
            && self.disclosures.iter().all(|d| !d.contains('~'))
            && self.kb.as_ref().map(|k| !k.contains('~') && !k.is_empty()).unwrap_or(true)
    }

    pub fn payload_text(&self) -> Result<String, String> {
        let seg = self.jwt.split('.').nth(1).ok_or("jwt has no payload segment")?;
        String::from_utf8(b64d(seg)?).map_err(|e| e.to_string())
    }
    pub fn header(&self) -> Result<Value, String> {
        let seg = self.jwt.split('.').next().ok_or("jwt has no header segment")?;
        serde_json::from_slice(&b64d(seg)?).map_err(|e| e.to_string())
    }
    pub fn payload(&self) -> Result<Value, String> {
        serde_json::from_str(&self.payload_text()?).map_err(|e| e.to_string())
    }
}

// ------------------------------------------------------------------------------------------
// (b)+(c): selection semantics and expected view

fn is_selected(s: Option<&Value>) -> bool {
    matches!(s, Some(x) if !(x.is_null() || *x == Value::Bool(false)))
}

/// Expected verified claims for `(U, SD, sel)`, and the set D of disclosed SD paths.
/// The walk descends only through selected nodes whose selector is a container of the right kind.
pub fn view(u: &Value, sel: &Value, sd: &BTreeSet<Path>) -> (Value, BTreeSet<Path>) {
    fn go(v: &Value, p: &mut Path, sel: Option<&Value>, sd: &BTreeSet<Path>, d: &mut BTreeSet<Path>) -> Value {
        match v {
            Value::Object(m) => {
                let so = sel.and_then(Value::as_object);
                let mut out = Map::new();
                for (k, c) in m {
                    p.push(Step::K(k.clone()));
                    let s = so.and_then(|o| o.get(k));
                    let selected = is_selected(s);
                    let is_sd = sd.contains(p);
                    if !(is_sd && !selected) {
                        if is_sd {
                            d.insert(p.clone());
                        }
                        let ds = if selected {
                            s.filter(|x| x.is_object() || x.is_array())
                        } else {
                            None
                        };
                        out.insert(k.clone(), go(c, p, ds, sd, d));
                    }
                    p.pop();
                }
                Value::Object(out)
            }
            Value::Array(a) => {
                let sa = sel.and_then(Value::as_array);
                let mut out = vec![];
                for (i, c) in a.iter().enumerate() {
                    p.push(Step::I(i));
                    let s = sa.and_then(|o| o.get(i));
                    let selected = is_selected(s);
                    let is_sd = sd.contains(p);
                    if !(is_sd && !selected) {
                        if is_sd {
                            d.insert(p.clone());
                        }
                        let ds = if selected {
                            s.filter(|x| x.is_object() || x.is_array())
                        } else {
                            None
                        };
                        out.push(go(c, p, ds, sd, d));
                    }
                    p.pop();
                }
                Value::Array(out)
            }
            x => x.clone(),
        }
    }
    let mut d = BTreeSet::new();
    let v = go(u, &mut vec![], Some(sel), sd, &mut d);
    (v, d)
}

/// Expected view when the set of disclosed SD paths is given directly (closed under ancestors
/// by construction of the walk: a path below an undisclosed SD ancestor is unreachable).
pub fn view_by_set(u: &Value, sd: &BTreeSet<Path>, dl: &BTreeSet<Path>) -> Value {
    fn go(v: &Value, p: &mut Path, sd: &BTreeSet<Path>, dl: &BTreeSet<Path>) -> Value {
        match v {
            Value::Object(m) => {
                let mut o = Map::new();
                for (k, c) in m {
                    p.push(Step::K(k.clone()));
                    if !sd.contains(p) || dl.contains(p) {
                        o.insert(k.clone(), go(c, p, sd, dl));
                    }
                    p.pop();
                }
                Value::Object(o)
            }
            Value::Array(a) => {
                let mut o = vec![];
                for (i, c) in a.iter().enumerate() {
                    p.push(Step::I(i));
                    if !sd.contains(p) || dl.contains(p) {
                        o.push(go(c, p, sd, dl));
                    }
                    p.pop();
                }
                Value::Array(o)
            }
            x => x.clone(),
        }
    }
    go(u, &mut vec![], sd, dl)
}

/// Add the holder-key confirmation claim the issuer embeds.
pub fn with_cnf(mut v: Value, jwk: Option<&Value>) -> Value {
    if let (Some(j), Some(o)) = (jwk, v.as_object_mut()) {
        o.insert("cnf".into(), json!({ "jwk": j }));
    }
    v
}

/// First difference between two JSON values: (path, expected, got, both_are_f64)
pub fn first_diff(exp: &Value, got: &Value) -> Option<(String, String, String, bool)> {
    fn go(e: &Value, g: &Value, p: &mut Path) -> Option<(String, String, String, bool)> {
        match (e, g) {
            (Value::Object(a), Value::Object(b)) => {
                for (k, v) in a {
                    p.push(Step::K(k.clone()));
                    match b.get(k) {
                        None => return Some((path_str(p), short(v), "<absent>".into(), false)),
                        Some(w) => {
                            if let Some(d) = go(v, w, p) {
                                return Some(d);
                            }
                        }
                    }
                    p.pop();
                }
                for (k, w) in b {
                    if !a.contains_key(k) {
                        p.push(Step::K(k.clone()));
                        return Some((path_str(p), "<absent>".into(), short(w), false));
                    }
                }
                None
            }
            (Value::Array(a), Value::Array(b)) => {
                for (i, v) in a.iter().enumerate() {
                    p.push(Step::I(i));
                    match b.get(i) {
                        None => return Some((path_str(p), short(v), "<absent>".into(), false)),
                        Some(w) => {
                            if let Some(d) = go(v, w, p) {
                                return Some(d);
                            }
                        }
                    }
                    p.pop();
                }
                if b.len() > a.len() {
                    p.push(Step::I(a.len()));
                    return Some((path_str(p), "<absent>".into(), short(&b[a.len()]), false));
                }
                None
            }
            (x, y) => {
                if x == y {
                    None
                } else {
                    let f = matches!((x, y), (Value::Number(a), Value::Number(b)) if a.is_f64() && b.is_f64());
                    Some((path_str(p), short(x), short(y), f))
                }
            }
        }
    }
    go(exp, got, &mut vec![])
}

pub fn short(v: &Value) -> String {
    let s = v.to_string();
    if s.len() > 160 {
        let mut e = 160;
        while !s.is_char_boundary(e) {
            e -= 1;
        }
        format!("{}…", &s[..e])
    } else {
        s
    }
}

/// Does the value contain any reserved SD-JWT member (`_sd`, `_sd_alg`) or placeholder
/// (`{"...": ..}` array element)? Generated claims never use these names.
pub fn reserved_residue(v: &Value) -> Option<String> {
    fn go(v: &Value, p: &mut Path, in_array: bool) -> Option<String> {
        match v {
            Value::Object(m) => {
                for (k, c) in m {
                    p.push(Step::K(k.clone()));
                    if k == "_sd" || k == "_sd_alg" {
                        return Some(path_str(p));
                    }
                    if k == "..." && in_array && m.len() == 1 {
                        return Some(path_str(p));
                    }
                    if let Some(x) = go(c, p, false) {
                        return Some(x);
                    }
                    p.pop();
                }
                None
            }
            Value::Array(a) => {
                for (i, c) in a.iter().enumerate() {
                    p.push(Step::I(i));
                    if let Some(x) = go(c, p, true) {
                        return Some(x);
                    }
                    p.pop();
                }
                None
            }
            _ => None,
        }
    }
    go(v, &mut vec![], false)
}

// ------------------------------------------------------------------------------------------
// (d) independent decoder / locator

#[derive(Clone, Debug)]
pub struct Complaint {
    pub kind: &'static str,
    pub at: String,
    pub detail: String,
}
fn complain(kind: &'static str, p: &Path, detail: impl Into<String>) -> Complaint {
    Complaint {
        kind,
        at: path_str(p),
        detail: detail.into(),
    }
}

#[derive(Clone, Debug)]
pub struct DecodedDisclosure {
    pub raw: String,
    pub text: String,
    pub json: Value,
}

/// One `_sd` list as found in the payload or a disclosed value.
#[derive(Clone, Debug)]
pub struct SdList {
    pub at: String,
    /// found inside the value of a disclosure (true) or in the signed payload itself (false)
    pub in_disclosure: bool,
    /// per entry: Some(member index in U's object order) for a real digest, None for a decoy
    pub entries: Vec<Option<usize>>,
    /// per entry: rank of the hidden member's NAME among the object's member names (byte order)
    pub name_ranks: Vec<Option<usize>>,
    /// the object also has members that stay visible (partly hidden objects arise under Custom)
    pub has_visible: bool,
    /// per entry: what the hidden member's value is (0 scalar, 1 object, 2 array); None for a decoy
    pub kinds: Vec<Option<u8>>,
}

#[derive(Default, Debug)]
pub struct Located {
    /// SD path -> presented disclosure string
    pub map: BTreeMap<Path, String>,
    pub digest_uses: BTreeMap<String, u32>,
    pub unmatched: Vec<String>,
    pub sd_lists: Vec<SdList>,
    /// number of objects visited / objects carrying >= 1 unmatched digest
    pub objects: u64,
    pub objects_with_decoy: u64,
    pub complaints: Vec<Complaint>,
    /// walk state: > 0 while inside the value of a disclosure
    pub disc_depth: u32,
}

pub fn decode_disclosures(ds: &[String]) -> Result<HashMap<String, DecodedDisclosure>, Complaint> {
    let mut by = HashMap::new();
    for d in ds {
        let bytes = b64d(d).map_err(|e| Complaint {
            kind: "disclosure-not-base64url",
            at: String::new(),
            detail: e,
        })?;
        let text = String::from_utf8(bytes).map_err(|e| Complaint {
            kind: "disclosure-not-utf8",
            at: String::new(),
            detail: e.to_string(),
        })?;
        let json: Value = serde_json::from_str(&text).map_err(|e| Complaint {
            kind: "disclosure-not-json",
            at: String::new(),
            detail: format!("{e}: {}", text.chars().take(120).collect::<String>()),
        })?;
        if by
            .insert(
                digest_of(d),
                DecodedDisclosure {
                    raw: d.clone(),
                    text,
                    json,
                },
            )
            .is_some()
        {
            return Err(Complaint {
                kind: "disclosure-duplicate",
                at: String::new(),
                detail: d.clone(),
            });
        }
    }
    Ok(by)
}

/// Walk the original claims `u` and the decoded payload in parallel and locate the disclosure
/// of every SD path; every structural deviation is a complaint (C05 uses the complaints, other
/// monitors use the map). `decoys`: Some(true) = every object must carry an unmatched digest,
/// Some(false) = no unmatched digest anywhere, None = not judged.
pub fn locate(
    u: &Value,
    payload: &Value,
    by: &HashMap<String, DecodedDisclosure>,
    sd: &BTreeSet<Path>,
    decoys: Option<bool>,
    expect_cnf: Option<&Value>,
) -> Located {
    let mut l = Located::default();
    let mut p = vec![];
    walk(u, payload, &mut p, sd, by, decoys, true, expect_cnf, &mut l);
    for (d, n) in &l.digest_uses {
        if *n != 1 {
            l.complaints.push(Complaint {
                kind: "digest-referenced-more-than-once",
                at: String::new(),
                detail: format!("{d} x{n}"),
            });
        }
    }
    let located: HashSet<&String> = l.map.values().collect();
    for dd in by.values() {
        if !located.contains(&dd.raw) {
            l.complaints.push(Complaint {
                kind: "disclosure-unreferenced",
                at: String::new(),
                detail: dd.text.chars().take(120).collect(),
            });
        }
    }
    l
}

#[allow(clippy::too_many_arguments)]
fn walk(
    u: &Value,
    pv: &Value,
    p: &mut Path,
    sd: &BTreeSet<Path>,
    by: &HashMap<String, DecodedDisclosure>,
    decoys: Option<bool>,
    top: bool,
    expect_cnf: Option<&Value>,
    l: &mut Located,
) {
    match u {
        Value::Object(m) => {
            let po = match pv.as_object() {
                Some(o) => o,
                None => {
                    l.complaints.push(complain("object-expected", p, short(pv)));
                    return;
                }
            };
            l.objects += 1;
            let mut hidden_here: BTreeMap<String, (String, Value, usize)> = BTreeMap::new();
            let mut unmatched = 0;
            let mut list_entries: Vec<Option<String>> = vec![];
            if let Some(list) = po.get("_sd") {
                match list.as_array() {
                    None => l.complaints.push(complain("_sd-not-array", p, short(list))),
                    Some(arr) => {
                        if arr.is_empty() {
                            l.complaints.push(complain("_sd-empty", p, ""));
                        }
                        for (pos, d) in arr.iter().enumerate() {
                            let d = match d.as_str() {
                                Some(d) => d,
                                None => {
                                    l.complaints.push(complain("_sd-entry-not-string", p, short(d)));
                                    continue;
                                }
                            };
                            if !digest_wellformed(d) {
                                l.complaints.push(complain("digest-malformed", p, d));
                            }
                            *l.digest_uses.entry(d.to_string()).or_default() += 1;
                            match by.get(d) {
                                Some(dd) => match dd.json.as_array() {
                                    Some(a) if a.len() == 3 && a[1].is_string() && a[0].is_string() => {
                                        let name = a[1].as_str().unwrap().to_string();
                                        list_entries.push(Some(name.clone()));
                                        if hidden_here
                                            .insert(name.clone(), (dd.raw.clone(), a[2].clone(), pos))
                                            .is_some()
                                        {
                                            l.complaints.push(complain("two-disclosures-same-name", p, name));
                                        }
                                    }
                                    _ => {
                                        list_entries.push(None);
                                        l.complaints.push(complain(
                                            "member-disclosure-not-[salt,name,value]",
                                            p,
                                            dd.text.clone(),
                                        ));
                                    }
                                },
                                None => {
                                    unmatched += 1;
                                    list_entries.push(None);
                                    l.unmatched.push(d.to_string());
                                }
                            }
                        }
                    }
                }
            }
            if unmatched > 0 {
                l.objects_with_decoy += 1;
            }
            // objects below an always-visible top-level claim (a structured iat) are copied verbatim
            let verbatim = !p.is_empty() && crate::gen::always_visible(&p[..1].to_vec());
            match decoys {
                _ if verbatim => {}
                Some(true) if unmatched == 0 => l.complaints.push(complain("no-decoy-in-object", p, "")),
                Some(false) if unmatched != 0 => {
                    l.complaints
                        .push(complain("unmatched-digest-without-decoys", p, format!("{unmatched}")))
                }
                _ => {}
            }
            // `_sd` list bookkeeping for the order statistic (C12)
            {
                let names: Vec<&String> = m.keys().collect();
                let entries: Vec<Option<usize>> = list_entries
                    .iter()
                    .map(|e| e.as_ref().and_then(|n| names.iter().position(|k| *k == n)))
                    .collect();
                if !entries.is_empty() {
                    let mut sorted: Vec<&String> = names.clone();
                    sorted.sort();
                    let name_ranks: Vec<Option<usize>> = list_entries.iter().map(|e| e.as_ref().and_then(|n| sorted.iter().position(|k| *k == n))).collect();
                    l.sd_lists.push(SdList {
                        at: path_str(p),
                        in_disclosure: l.disc_depth > 0,
                        // (top-level iss / iat / exp are set aside before the issuer walks the claims: they do not count)
                        has_visible: names.iter().filter(|k| !(p.is_empty() && ["iss", "iat", "exp"].contains(&k.as_str()))).count() > entries.iter().filter(|e| e.is_some()).count(),
                        entries,
                        name_ranks,
                        kinds: list_entries.iter().map(|e| e.as_ref().and_then(|n| m.get(n)).map(|v| if v.is_object() { 1 } else if v.is_array() { 2 } else { 0 })).collect(),
                    });
                }
            }
            let mut expected_keys: BTreeSet<&str> = BTreeSet::new();
            for (k, c) in m {
                p.push(Step::K(k.clone()));
                if sd.contains(p) {
                    if po.contains_key(k) {
                        l.complaints.push(complain("hidden-member-present-in-clear", p, ""));
                    }
                    match hidden_here.remove(k) {
                        None => l.complaints.push(complain("hidden-member-without-disclosure", p, "")),
                        Some((raw, val, _)) => {
                            l.map.insert(p.clone(), raw);
                            l.disc_depth += 1;
                            walk(c, &val, p, sd, by, decoys, false, None, l);
                            l.disc_depth -= 1;
                        }
                    }
                } else {
                    expected_keys.insert(k.as_str());
                    match po.get(k) {
                        None => l.complaints.push(complain("visible-member-missing", p, "")),
                        Some(pc) => walk(c, pc, p, sd, by, decoys, false, None, l),
                    }
                }
                p.pop();
            }
            for (name, _) in hidden_here {
                l.complaints
                    .push(complain("member-hidden-but-not-designated", p, name));
            }
            for (k, v) in po {
                if k == "_sd" {
                    continue;
                }
                if top && k == "_sd_alg" {
                    if v != "sha-256" {
                        l.complaints.push(complain("_sd_alg-not-sha-256", p, short(v)));
                    }
                    continue;
                }
                if top && k == "cnf" && expect_cnf.is_some() && !m.contains_key("cnf") {
                    if Some(v) != expect_cnf.map(|j| json!({ "jwk": j })).as_ref() {
                        l.complaints.push(complain("cnf-mismatch", p, short(v)));
                    }
                    continue;
                }
                if !expected_keys.contains(k.as_str()) {
                    l.complaints.push(complain("unexpected-payload-member", p, k.clone()));
                }
            }
            if top {
                if !po.contains_key("_sd_alg") {
                    l.complaints.push(complain("_sd_alg-missing", p, ""));
                }
                if expect_cnf.is_some() && !po.contains_key("cnf") {
                    l.complaints.push(complain("cnf-missing", p, ""));
                }
            }
        }
        Value::Array(a) => {
            let pa = match pv.as_array() {
                Some(x) => x,
                None => {
                    l.complaints.push(complain("array-expected", p, short(pv)));
                    return;
                }
            };
            if pa.len() != a.len() {
                l.complaints
                    .push(complain("array-length", p, format!("{} vs {}", pa.len(), a.len())));
                return;
            }
            for (i, c) in a.iter().enumerate() {
                p.push(Step::I(i));
                if sd.contains(p) {
                    let d = pa[i]
                        .as_object()
                        .filter(|o| o.len() == 1)
                        .and_then(|o| o.get("..."))
                        .and_then(Value::as_str);
                    match d {
                        None => l.complaints.push(complain("hidden-element-not-a-placeholder", p, short(&pa[i]))),
                        Some(d) => {
                            if !digest_wellformed(d) {
                                l.complaints.push(complain("digest-malformed", p, d));
                            }
                            *l.digest_uses.entry(d.to_string()).or_default() += 1;
                            match by.get(d) {
                                None => l.complaints.push(complain("hidden-element-without-disclosure", p, "")),
                                Some(dd) => match dd.json.as_array() {
                                    Some(arr) if arr.len() == 2 && arr[0].is_string() => {
                                        l.map.insert(p.clone(), dd.raw.clone());
                                        l.disc_depth += 1;
                                        walk(c, &arr[1], p, sd, by, decoys, false, None, l);
                                        l.disc_depth -= 1;
                                    }
                                    _ => l.complaints.push(complain(
                                        "element-disclosure-not-[salt,value]",
                                        p,
                                        dd.text.clone(),
                                    )),
                                },
                            }
                        }
                    }
                } else {
                    if let Some(o) = pa[i].as_object() {
                        if o.len() == 1 && o.contains_key("...") && !c.as_object().map(|x| x.contains_key("...")).unwrap_or(false) {
                            l.complaints.push(complain("element-hidden-but-not-designated", p, ""));
                            p.pop();
                            continue;
                        }
                    }
                    walk(c, &pa[i], p, sd, by, decoys, false, None, l);
                }
                p.pop();
            }
        }
        x => {
            if x != pv {
                let f = matches!((x, pv), (Value::Number(a), Value::Number(b)) if a.is_f64() && b.is_f64());
                l.complaints.push(complain(
                    if f { "number-roundtrip" } else { "leaf-altered" },
                    p,
                    format!("{} vs {}", short(x), short(pv)),
                ));
            }
        }
    }
}

pub fn digest_wellformed(d: &str) -> bool {
    d.len() == 43
        && d.bytes().all(|b| b.is_ascii_alphanumeric() || b == b'-' || b == b'_')
        && b64d(d).map(|b| b.len() == 32).unwrap_or(false)
}

/// Tags (`#..;`) occurring in a string.
pub fn tags_in(s: &str) -> Vec<String> {
    let b = s.as_bytes();
    let mut out = vec![];
    let mut i = 0;
    while i < b.len() {
        if b[i] == b'#' {
            let mut j = i + 1;
            while j < b.len() && (b[j].is_ascii_digit() || b[j] == b'.' || b[j] == b':') {
                j += 1;
            }
            if j < b.len() && b[j] == b';' && j > i + 1 {
                out.push(s[i..=j].to_string());
                i = j + 1;
                continue;
            }
        }
        i += 1;
    }
    out
}

/// Every tag of `u` together with the path of the node it occurs at (a member name counts as
/// occurring at the member's own path).
pub fn tags_of(u: &Value) -> Vec<(String, Path)> {
    fn go(v: &Value, p: &mut Path, out: &mut Vec<(String, Path)>) {
        match v {
            Value::Object(m) => {
                for (k, c) in m {
                    p.push(Step::K(k.clone()));
                    for t in tags_in(k) {
                        out.push((t, p.clone()));
                    }
                    go(c, p, out);
                    p.pop();
                }
            }
            Value::Array(a) => {
                for (i, c) in a.iter().enumerate() {
                    p.push(Step::I(i));
                    go(c, p, out);
                    p.pop();
                }
            }
            Value::String(s) => {
                for t in tags_in(s) {
                    out.push((t, p.clone()));
                }
            }
            _ => {}
        }
    }
    let mut out = vec![];
    go(u, &mut vec![], &mut out);
    out
}

/// nearest SD ancestor-or-self of `p`
pub fn sd_home(p: &Path, sd: &BTreeSet<Path>) -> Option<Path> {
    for n in (1..=p.len()).rev() {
        let a = p[..n].to_vec();
        if sd.contains(&a) {
            return Some(a);
        }
    }
    None
}

pub fn count_occurrences(hay: &str, needle: &str) -> usize {
    hay.matches(needle).count()
}

// ------------------------------------------------------------------------------------------
// (e) specification verifier: draft-ietf-oauth-selective-disclosure-jwt-07 §6.1 step 3-4

#[derive(Debug, PartialEq, Clone)]
pub enum SpecOut {
    Reject(String),
    Claims(Value),
    Unspecified(String),
}

struct SpecWalk<'a> {
    by: &'a HashMap<String, Value>,
    seen: HashSet<String>,
    unspec: Option<String>,
}

impl<'a> SpecWalk<'a> {
    fn digest(&mut self, d: &str) -> Result<(), String> {
        if !self.seen.insert(d.to_string()) {
            Err("digest-twice".into())
        } else {
            Ok(())
        }
    }
    fn obj(&mut self, o: &Map<String, Value>, top: bool) -> Result<Value, String> {
        let mut out = Map::new();
        for (k, v) in o {
            if k == "_sd" {
                continue;
            }
            if top && k == "_sd_alg" {
                continue;
            }
            out.insert(k.clone(), self.val(v)?);
        }
        if let Some(Value::Array(list)) = o.get("_sd") {
            if list.iter().all(Value::is_string) {
                for d in list {
                    let d = d.as_str().unwrap();
                    self.digest(d)?;
                    if let Some(disc) = self.by.get(d) {
                        let arr = disc
                            .as_array()
                            .filter(|a| a.len() == 3)
                            .ok_or("member-disclosure-not-3-array")?;
                        let name = arr[1].as_str().ok_or("member-name-not-string")?;
                        if name == "_sd" || name == "..." {
                            return Err("reserved-name".into());
                        }
                        if !arr[0].is_string() {
                            self.unspec = Some("non-string salt".into());
                        }
                        if top && name == "_sd_alg" && !o.contains_key("_sd_alg") {
                            self.unspec = Some("disclosed _sd_alg without a signed one".into());
                        }
                        if out.contains_key(name) || o.contains_key(name) {
                            return Err("name-exists".into());
                        }
                        let v = self.val(&arr[2])?;
                        out.insert(name.to_string(), v);
                    }
                }
            } else {
                self.unspec = Some("_sd array with non-string entries".into());
            }
        }
        Ok(Value::Object(out))
    }
    fn val(&mut self, v: &Value) -> Result<Value, String> {
        match v {
            Value::Object(o) => self.obj(o, false),
            Value::Array(a) => {
                let mut out = vec![];
                for e in a {
                    if let Some(o) = e.as_object() {
                        if o.len() == 1 {
                            if let Some(Value::String(d)) = o.get("...") {
                                self.digest(d)?;
                                if let Some(disc) = self.by.get(d.as_str()) {
                                    let arr = disc
                                        .as_array()
                                        .filter(|a| a.len() == 2)
                                        .ok_or("element-disclosure-not-2-array")?;
                                    if !arr[0].is_string() {
                                        self.unspec = Some("non-string salt".into());
                                    }
                                    out.push(self.val(&arr[1])?);
                                }
                                continue;
                            }
                        }
                    }
                    out.push(self.val(e)?);
                }
                Ok(Value::Array(out))
            }
            x => Ok(x.clone()),
        }
    }
}

pub fn spec_verify(payload: &Value, discs: &[String]) -> SpecOut {
    let mut by = HashMap::new();
    for d in discs {
        let raw = match b64d(d) {
            Ok(r) => r,
            Err(_) => return SpecOut::Reject("disclosure-not-base64url".into()),
        };
        let v: Value = match serde_json::from_slice(&raw) {
            Ok(v) => v,
            Err(_) => return SpecOut::Reject("disclosure-not-json".into()),
        };
        if by.insert(digest_of(d), v).is_some() {
            return SpecOut::Unspecified("duplicate disclosure".into());
        }
    }
    let o = match payload.as_object() {
        Some(o) => o,
        None => return SpecOut::Reject("payload-not-object".into()),
    };
    if let Some(a) = o.get("_sd_alg") {
        if a != "sha-256" {
            return SpecOut::Reject("_sd_alg-unsupported".into());
        }
    }
    let mut s = SpecWalk {
        by: &by,
        seen: HashSet::new(),
        unspec: None,
    };
    let r = s.obj(o, true);
    if let Some(u) = s.unspec {
        // anything the draft leaves open was touched: assert nothing
        return SpecOut::Unspecified(u);
    }
    match r {
        Err(e) => SpecOut::Reject(e),
        Ok(v) => SpecOut::Claims(v),
    }
}
