//! One monitor per property.
use crate::evidence::{Ctx, Report};

pub mod c01;

pub fn run(ctx: &Ctx) -> Option<Report> {
    match ctx.property.as_str() {
        "C01" => Some(c01::run(ctx)),
        _ => None,
    }
}
