//! One monitor per property.
use crate::evidence::{Ctx, Report};

pub mod c01;
pub mod c02;
pub mod c03;
pub mod c04;
pub mod c05;
pub mod c06;
pub mod c07;
pub mod c08;
pub mod c09;
pub mod c10;
pub mod c15;
#[cfg(feature = "mock")]
pub mod c16;
pub mod history;
pub mod c13;
pub mod c14;
pub mod c12;
pub mod c11;

pub fn run(ctx: &Ctx) -> Option<Report> {
    match ctx.property.as_str() {
        "C01" => Some(c01::run(ctx)),
        "C05" => Some(c05::run(ctx)),
        "C06" => Some(c06::run(ctx)),
        "C11" => Some(c11::run(ctx)),
        "C12" => Some(c12::run(ctx)),
        "C13" => Some(c13::run(ctx)),
        "C15" => Some(c15::run(ctx)),
        "C02" => Some(c02::run(ctx)),
        "C03" => Some(c03::run(ctx)),
        "C04" => Some(c04::run(ctx)),
        "C08" => Some(c08::run(ctx)),
        "C09" => Some(c09::run(ctx)),
        "C10" => Some(c10::run(ctx)),
        #[cfg(feature = "mock")]
        "C16" => Some(c16::run(ctx)),
        "C14" => Some(c14::run(ctx)),
        "C07" => Some(c07::run(ctx)),
        _ => None,
    }
}
