//! C04 — key binding is enforced whenever the verifier asks for it.
//! Must-accept control per (credential, selection, format, holder alg, aud, nonce); must-reject
//! for every attack of the property's list. Crafted KB-JWTs come from the signing oracle.

use crate::api::{self, KbArgs, Outcome, Resolver};
use crate::evidence::{run_cases, Ctx, Local, Report, Tier, Violation};
use crate::gen;
use crate::keys::{self, Alg};
use crate::model::{self, Fmt, Parts};
use crate::pipeline::{self, Config};
use crate::rng::Rng;
use crate::tamper::{self, alphabet69, CharOp};
use serde_json::{json, Value};

const STREAM: u64 = 4;

pub fn run(ctx: &Ctx) -> Report {
    let n = ctx.cases(300, 3_000);
    let local = run_cases(ctx, n, |case, l| one_case(ctx, case, l));
    let mut rep = Report::new(
        "fault_enumeration",
        "case = one key-bound credential (holder key ES256 / EdDSA alternating, issuer alg and format from the C01 configuration \
         enumeration), one selection, one (aud, nonce) pair incl. empty / Unicode / '~' / '.' / 1 KB values; honest control, then every \
         attack of the list: KB removed/emptied/null, every single-character edit position of the KB-JWT (quick: 1 substitution + \
         deletion + 1 insertion per position; thorough: every 10th credential all 69 substitutions), re-signed by other keys/families, \
         typ variants, nonce/aud absent or different, verifier expecting different values, sd_hash absent/wrong/over another set, replay \
         with one disclosure more / fewer / reordered and onto another credential, credential without cnf, cnf only via a forged \
         disclosure, only one of aud/nonce. evaluations = verifier calls. Distinct = (credential, attack, position, character).",
        local,
    );
    rep.assumptions = vec![
        "a KB-JWT whose aud is an array containing the expected audience is legitimate (RFC 7519) and not generated as an attack".into(),
        "reordering counts as an attack only when the order actually changed".into(),
    ];
    if ctx.only_case.is_none() && ctx.shard.is_none() && std::env::var("VERIF_LEG").is_err() {
        crate::mon::history::leg(ctx, &mut rep, "C04");
    }
    rep.floor("control.accepted", 100);
    rep.floor("attack.kb-char.rejected", 10_000);
    for a in ["kb-removed", "resigned-other-holder-key", "typ", "nonce", "aud", "verifier-expects-other", "sd_hash", "replay-more", "replay-fewer", "replay-other-credential", "no-cnf", "one-of-aud-nonce"] {
        rep.floor(&format!("attack.{a}.rejected"), 20);
    }
    rep.floor("attack.replay-reordered.rejected", 10);
    rep.floor("control.length-sweep.accepted", 60);
    rep.floor("format.Compact", 20);
    rep.floor("format.JSON", 20);
    rep
}

fn sd_hash_of(jwt: &str, ds: &[String]) -> String {
    let mut s = jwt.to_string();
    for d in ds {
        s.push('~');
        s.push_str(d);
    }
    s.push('~');
    model::digest_of(&s)
}

fn one_case(ctx: &Ctx, case: u64, l: &mut Local) {
    let mut r = Rng::for_case(ctx.seed, STREAM, case);
    let mut cfg = Config::from_index(case * 7 + 3);
    let halg = if case % 2 == 0 { Alg::ES256 } else { Alg::EdDSA };
    cfg.holder = Some((halg, 0));
    if matches!(cfg.strat, gen::StratKind::NoSD) && r.chance(70) {
        cfg.strat = gen::StratKind::AllLevels;
    }
    let fmt = cfg.fmt;
    let s = pipeline::gen_scenario(ctx, &mut r, cfg.clone());
    let issued = match pipeline::issue_scenario(&s) {
        Ok(i) if i.loc.complaints.is_empty() => i,
        _ => {
            l.count("skipped.issue");
            return;
        }
    };
    let sel = pipeline::random_selection(&mut r, &s.u);
    let kb = pipeline::kb_args_for(&mut r, (halg, 0));
    let (aud, nonce) = (kb.aud.clone(), kb.nonce.clone());
    let pres = match api::holder_new(&issued.sd_jwt, fmt) {
        Outcome::Ok(mut h) => match api::present(&mut h, &sel, Some(&kb)) {
            Outcome::Ok(p) => p,
            other => {
                // an honest holder (right key, its algorithm given or defaulted) must be able to present
                l.violate(Violation {
                    subcheck: "holder-cannot-present".into(),
                    class: format!("honest key-bound presentation ({} holder, issuer {}, explicit alg {})", halg.name(), cfg.alg.name(), kb.explicit_alg),
                    observed: other.panic_signature().unwrap_or_else(|| other.describe()),
                    case,
                    detail: json!({"config": cfg.describe(), "history": api::history()}),
                });
                return;
            }
        },
        _ => return,
    };
    let parts = match Parts::parse(fmt, &pres) {
        Ok(p) => p,
        Err(_) => return,
    };
    let honest_kb = match &parts.kb {
        Some(k) => k.clone(),
        None => {
            l.violate(Violation { subcheck: "kb-missing".into(), class: "holder".into(), observed: "holder produced no KB-JWT".into(), case, detail: json!({"presentation": pres}) });
            return;
        }
    };
    l.count(&format!("format.{}", fmt.name()));
    let resolver = Resolver::Fixed(cfg.alg, 0);
    let desc = json!({"config": cfg.describe(), "aud": aud.chars().take(40).collect::<String>(), "nonce": nonce.chars().take(40).collect::<String>(),
                      "disclosures_presented": parts.disclosures.len(), "disclosures_issued": issued.parts.disclosures.len(), "kb_jwt_len": honest_kb.len()});
    l.sample(case, || desc.clone());

    // ---- honest key-bound presentations from a REUSED holder are accepted as well: a second and
    // a third presentation with other selections (often of equal size) and other aud / nonce
    if let Outcome::Ok(mut h) = api::holder_new(&issued.sd_jwt, fmt) {
        let _ = api::present(&mut h, &sel, Some(&kb));
        for round in 0..3 {
            let sel2 = if round == 0 { crate::gen::narrow_selection(&mut r, &sel) } else { pipeline::random_selection(&mut r, &s.u) };
            let kb2 = pipeline::kb_args_for(&mut r, (halg, 0));
            if let Outcome::Ok(p2) = api::present(&mut h, &sel2, Some(&kb2)) {
                let v = api::verify(&p2, &resolver, Some((&kb2.aud, &kb2.nonce)), fmt);
                l.evals += 1;
                if v.out.is_ok() {
                    l.count("control.reused-holder.accepted");
                } else {
                    l.violate(Violation {
                        subcheck: "control-rejected".into(),
                        class: format!("honest key-bound presentation #{} of a reused holder ({} holder, {})", round + 2, halg.name(), fmt.name()),
                        observed: v.out.panic_signature().unwrap_or_else(|| v.out.describe()),
                        case,
                        detail: json!({"config": cfg.describe(), "first_selection": sel, "selection": sel2, "history": api::history()}),
                    });
                }
            }
        }
    }
    // ---- honest key-bound presentation of a credential that came from a REUSED issuer: the same
    // issuer instance first serves another holder (other key), then this one
    {
        let mut issuer = api::new_issuer(cfg.alg, 0, s.explicit_alg);
        let other_key = (if halg == Alg::ES256 { Alg::EdDSA } else { Alg::ES256 }, 0usize);
        let _ = pipeline::issue_with(&mut issuer, &s.u, &s.strat, Some(if r.chance(50) { other_key } else { (halg, 1) }), cfg.decoys, fmt);
        if let Ok(second) = pipeline::issue_with(&mut issuer, &s.u, &s.strat, Some((halg, 0)), cfg.decoys, fmt) {
            if let Outcome::Ok(mut h) = api::holder_new(&second.sd_jwt, fmt) {
                if let Outcome::Ok(p2) = api::present(&mut h, &sel, Some(&kb)) {
                    let v = api::verify(&p2, &resolver, Some((&kb.aud, &kb.nonce)), fmt);
                    l.evals += 1;
                    if v.out.is_ok() {
                        l.count("control.reused-issuer.accepted");
                    } else {
                        l.violate(Violation {
                            subcheck: "control-rejected".into(),
                            class: format!("honest key-bound presentation of the second credential of a reused issuer ({} holder, {})", halg.name(), fmt.name()),
                            observed: v.out.panic_signature().unwrap_or_else(|| v.out.describe()),
                            case,
                            detail: json!({"config": cfg.describe(), "history": api::history()}),
                        });
                    }
                }
            }
        }
    }
    // ---- length sweep: a credential with ~140 disclosures (> 8 KiB of hashed text) in which ONE value grows
    // by a byte per case, so that across the block every part of the hashed text ends on every alignment
    // relative to any fixed block size; the honest key-bound presentation is accepted at each length
    if case % 32 == 19 {
        let n = 120 + (case / 32) % 60;
        for j in 0..12u64 {
            let pad = (((case / 32) * 12 + j) % 192) as usize;
            let mut m = serde_json::Map::new();
            m.insert("a_pad".into(), json!("p".repeat(pad)));
            m.insert("exp".into(), json!(4_000_000_000u64));
            m.insert("iss".into(), json!("https://issuer.example"));
            for i in 0..n {
                m.insert(format!("m{i:03}"), json!(format!("{:016x}{:016x}", r.next(), r.next())));
            }
            let u = Value::Object(m);
            let mut issuer = api::new_issuer(cfg.alg, 0, s.explicit_alg);
            let kind = if r.chance(50) { gen::StratKind::TopLevel } else { gen::StratKind::AllLevels };
            let strat = gen::gen_strategy(&mut r, &u, kind);
            let Ok(big) = pipeline::issue_with(&mut issuer, &u, &strat, Some((halg, 0)), false, fmt) else { continue };
            let Outcome::Ok(mut h) = api::holder_new(&big.sd_jwt, fmt) else { continue };
            let mut selb = gen::select_all(&u);
            if r.chance(30) {
                if let Some(o) = selb.as_object_mut() {
                    o.remove(&format!("m{:03}", r.below(n)));
                }
            }
            let Outcome::Ok(p2) = api::present(&mut h, &selb, Some(&kb)) else { continue };
            let v = api::verify(&p2, &resolver, Some((&kb.aud, &kb.nonce)), fmt);
            l.evals += 1;
            if v.out.is_ok() {
                l.count("control.length-sweep.accepted");
            } else {
                l.violate(Violation {
                    subcheck: "control-rejected".into(),
                    class: format!("honest key-bound presentation of a credential with more than 100 disclosures ({} holder, {})", halg.name(), fmt.name()),
                    observed: v.out.panic_signature().unwrap_or_else(|| v.out.describe()),
                    case,
                    detail: json!({"config": cfg.describe(), "pad": pad, "members": n, "presentation_len": p2.len()}),
                });
            }
        }
    }
    // ---- a holder key whose x coordinate starts with a zero octet: confirmed, presented and verified
    // like any other key
    if case % 4 == 2 {
        let mut issuer = api::new_issuer(cfg.alg, 0, s.explicit_alg);
        if let Ok(lz) = pipeline::issue_with(&mut issuer, &s.u, &s.strat, Some((Alg::ES256, 2)), cfg.decoys, fmt) {
            let kb_lz = KbArgs { nonce: kb.nonce.clone(), aud: kb.aud.clone(), alg: Alg::ES256, key_idx: 2, explicit_alg: true };
            if let Outcome::Ok(mut h) = api::holder_new(&lz.sd_jwt, fmt) {
                if let Outcome::Ok(p2) = api::present(&mut h, &sel, Some(&kb_lz)) {
                    let v = api::verify(&p2, &resolver, Some((&kb.aud, &kb.nonce)), fmt);
                    l.evals += 1;
                    let cnf_ok = lz.payload["cnf"]["jwk"]["x"] == keys::holder_jwk_json(Alg::ES256, 2)["x"];
                    if v.out.is_ok() && cnf_ok {
                        l.count("control.leading-zero-coordinate-key.accepted");
                    } else {
                        l.violate(Violation {
                            subcheck: "control-rejected".into(),
                            class: format!("holder key with a leading zero octet in x ({})", fmt.name()),
                            observed: if cnf_ok { v.out.panic_signature().unwrap_or_else(|| v.out.describe()) } else { "cnf.jwk.x is not the coordinate that was bound".into() },
                            case,
                            detail: json!({"config": cfg.describe(), "cnf": lz.payload["cnf"], "history": api::history()}),
                        });
                    }
                }
            }
        }
    }
    // ---- self-issued credential: the confirmed holder key IS the issuer's key pair; the honest
    // key-bound presentation verifies like any other
    if case % 4 == 1 {
        let mut issuer = sd_jwt_rs::SDJWTIssuer::new(keys::holder_enc(halg, 0), Some(halg.name().to_string()));
        if let Ok(si) = pipeline::issue_with(&mut issuer, &s.u, &s.strat, Some((halg, 0)), cfg.decoys, fmt) {
            if let Outcome::Ok(mut h) = api::holder_new(&si.sd_jwt, fmt) {
                if let Outcome::Ok(p2) = api::present(&mut h, &sel, Some(&kb)) {
                    let v = api::verify(&p2, &Resolver::HolderKey(halg, 0), Some((&kb.aud, &kb.nonce)), fmt);
                    l.evals += 1;
                    if v.out.is_ok() {
                        l.count("control.self-issued.accepted");
                    } else {
                        l.violate(Violation {
                            subcheck: "control-rejected".into(),
                            class: format!("self-issued credential: holder key = issuer key ({}, {})", halg.name(), fmt.name()),
                            observed: v.out.panic_signature().unwrap_or_else(|| v.out.describe()),
                            case,
                            detail: json!({"config": cfg.describe(), "history": api::history()}),
                        });
                    }
                }
            }
        }
    }
    // ---- control
    let control = api::verify(&pres, &resolver, Some((&aud, &nonce)), fmt);
    l.evals += 1;
    if !control.out.is_ok() {
        l.violate(Violation {
            subcheck: "control-rejected".into(),
            class: format!("honest key-bound presentation ({} holder, {})", halg.name(), fmt.name()),
            observed: control.out.panic_signature().unwrap_or_else(|| control.out.describe()),
            case,
            detail: json!({"credential": desc, "history": api::history()}),
        });
        return;
    }
    l.count("control.accepted");

    let must_reject = |l: &mut Local, attack: &str, sub: u64, p: &Parts, a: Option<&str>, n: Option<&str>, variant: u64| {
        if *p == parts && a == Some(aud.as_str()) && n == Some(nonce.as_str()) {
            // e.g. a second issuance that is byte-identical (no salts, deterministic signature)
            l.count("skipped.identity");
            return;
        }
        let enc = match p.encode(fmt, variant) {
            Some(e) => e,
            None => return,
        };
        if fmt == Fmt::Compact && !p.compact_representable() && attack != "kb-char" {
            l.count("skipped.not-compact-representable");
            return;
        }
        let v = api::verify_raw(&enc, &resolver, a.map(String::from), n.map(String::from), fmt);
        l.evals += 1;
        l.distinct(crate::rng::mix(case ^ gen::hash_str(attack).rotate_left(7) ^ (sub << 24)));
        match &v.out {
            Outcome::Err(_) => l.count(&format!("attack.{attack}.rejected")),
            Outcome::Ok(_) => l.violate(Violation {
                subcheck: "key-binding-bypassed".into(),
                class: format!("{attack} ({})", fmt.name()),
                observed: "Ok".into(),
                case,
                detail: json!({"credential": desc, "attack": attack, "sub": sub, "presentation": enc, "expected_aud": a, "expected_nonce": n}),
            }),
            pn @ Outcome::Panic(..) => l.violate(Violation {
                subcheck: "panic".into(),
                class: format!("{attack} ({})", fmt.name()),
                observed: pn.panic_signature().unwrap(),
                case,
                detail: json!({"credential": desc, "attack": attack, "presentation": enc}),
            }),
        }
    };
    let with_kb = |k: Option<String>| Parts { jwt: parts.jwt.clone(), disclosures: parts.disclosures.clone(), kb: k };
    let a = Some(aud.as_str());
    let n = Some(nonce.as_str());
    fn a_opt(s: &str) -> Option<&str> {
        Some(s)
    }

    // 1. KB removed / emptied / null
    for variant in 0..3 {
        must_reject(l, "kb-removed", variant, &with_kb(None), a, n, variant);
    }
    if fmt == Fmt::Json {
        // kb_jwt: "" and other degenerate strings
        for (i, k) in ["", ".", "..", "a.b.c", "null"].iter().enumerate() {
            must_reject(l, "kb-removed", 10 + i as u64, &with_kb(Some(k.to_string())), a, n, 0);
        }
    } else {
        for (i, k) in [".", "..", "a.b.c", "null"].iter().enumerate() {
            must_reject(l, "kb-removed", 10 + i as u64, &with_kb(Some(k.to_string())), a, n, 0);
        }
    }

    // 2. every single-character edit position of the KB-JWT
    let alpha = alphabet69();
    let full = ctx.tier == Tier::Thorough && case % 10 == 0;
    for pos in 0..=honest_kb.len() {
        let mut ops: Vec<CharOp> = vec![];
        if full {
            ops.extend(alpha.iter().map(|c| CharOp::Sub(*c)));
        } else {
            ops.push(CharOp::Sub(*r.pick(&alpha)));
        }
        ops.push(CharOp::Del);
        ops.push(CharOp::Ins(*r.pick(&alpha)));
        for op in ops {
            if let Some(e) = tamper::apply(&honest_kb, pos, op) {
                must_reject(l, "kb-char", ((pos as u64) << 16) | op.code(), &with_kb(Some(e)), a, n, 0);
            }
        }
    }

    // signing-oracle helpers
    let honest_payload = || -> Value {
        json!({"nonce": nonce, "aud": aud, "iat": api::now(), "sd_hash": sd_hash_of(&parts.jwt, &parts.disclosures)})
    };
    // 3. re-signed by other keys / families
    must_reject(l, "resigned-other-holder-key", 0, &with_kb(Some(api::sign_kb(halg, 1, &honest_payload(), Some("kb+jwt")))), a, n, 0);
    let other_h = if halg == Alg::ES256 { Alg::EdDSA } else { Alg::ES256 };
    must_reject(l, "resigned-other-holder-key", 1, &with_kb(Some(api::sign_kb(other_h, 0, &honest_payload(), Some("kb+jwt")))), a, n, 0);
    must_reject(l, "resigned-issuer-key", 0, &with_kb(Some(api::sign_payload(cfg.alg, 0, &honest_payload(), Some("kb+jwt")))), a, n, 0);
    {
        // HS256 MAC keyed with the bytes of the holder JWK (public information)
        let jwk_bytes = keys::holder_jwk_json_canonical(halg, 0).to_string().into_bytes();
        let forged = api::sign_raw(&json!({"alg": "HS256", "typ": "kb+jwt"}), &honest_payload(), jsonwebtoken::Algorithm::HS256, &jsonwebtoken::EncodingKey::from_secret(&jwk_bytes));
        must_reject(l, "resigned-hs256-jwk-bytes", 0, &with_kb(Some(forged)), a, n, 0);
        let x = keys::holder_jwk_json(halg, 0)["x"].as_str().unwrap_or("").to_string();
        let forged = api::sign_raw(&json!({"alg": "HS256", "typ": "kb+jwt"}), &honest_payload(), jsonwebtoken::Algorithm::HS256, &jsonwebtoken::EncodingKey::from_secret(x.as_bytes()));
        must_reject(l, "resigned-hs256-jwk-bytes", 1, &with_kb(Some(forged)), a, n, 0);
        // HMAC of every size keyed with the RAW public key material in the forms a JWK-derived
        // verification key is held in memory (0x04||x||y, x||y, x alone, y alone)
        {
            let jwk = keys::holder_jwk_json(halg, 0);
            let xb = model::b64d(jwk["x"].as_str().unwrap_or("")).unwrap_or_default();
            let yb = jwk.get("y").and_then(Value::as_str).and_then(|y| model::b64d(y).ok()).unwrap_or_default();
            let mut secrets: Vec<Vec<u8>> = vec![xb.clone(), [xb.clone(), yb.clone()].concat(), [vec![4u8], xb.clone(), yb.clone()].concat(), vec![]];
            if !yb.is_empty() {
                secrets.push(yb.clone());
            }
            let mut k = 10u64;
            for secret in secrets {
                for (hs, a) in [("HS256", jsonwebtoken::Algorithm::HS256), ("HS384", jsonwebtoken::Algorithm::HS384), ("HS512", jsonwebtoken::Algorithm::HS512)] {
                    let forged = api::sign_raw(&json!({"alg": hs, "typ": "kb+jwt"}), &honest_payload(), a, &jsonwebtoken::EncodingKey::from_secret(&secret));
                    must_reject(l, "resigned-hs256-jwk-bytes", k, &with_kb(Some(forged)), a_opt(&aud), a_opt(&nonce), 0);
                    k += 1;
                }
            }
        }
        // alg none
        let hdr = model::b64e(json!({"alg": "none", "typ": "kb+jwt"}).to_string().as_bytes());
        let pl = model::b64e(honest_payload().to_string().as_bytes());
        must_reject(l, "resigned-alg-none", 0, &with_kb(Some(format!("{hdr}.{pl}."))), a, n, 0);
    }
    // 4. typ absent or different (validly signed by the holder key)
    for (i, typ) in [None, Some("jwt"), Some("JWT"), Some("KB+JWT"), Some("kb+jwt "), Some("kb-jwt"), Some("sd+jwt"), Some("application/kb+jwt"), Some("application/application/kb+jwt"), Some(" kb+jwt"), Some("kb+jwt;v=1"), Some("kb+jwt\n"), Some("Kb+Jwt"), Some("xkb+jwt"), Some("")].iter().enumerate() {
        must_reject(l, "typ", i as u64, &with_kb(Some(api::sign_kb(halg, 0, &honest_payload(), *typ))), a, n, 0);
    }
    // 5. nonce / aud absent or different
    {
        let mut p = honest_payload();
        p.as_object_mut().unwrap().remove("nonce");
        must_reject(l, "nonce", 0, &with_kb(Some(api::sign_kb(halg, 0, &p, Some("kb+jwt")))), a, n, 0);
        for (i, other) in [json!(format!("{nonce}x")), json!(""), json!(null), json!([nonce]), json!(7)].iter().enumerate() {
            if *other == json!(nonce) {
                continue;
            }
            let mut p = honest_payload();
            p["nonce"] = other.clone();
            must_reject(l, "nonce", 1 + i as u64, &with_kb(Some(api::sign_kb(halg, 0, &p, Some("kb+jwt")))), a, n, 0);
        }
        let mut p = honest_payload();
        p.as_object_mut().unwrap().remove("aud");
        must_reject(l, "aud", 0, &with_kb(Some(api::sign_kb(halg, 0, &p, Some("kb+jwt")))), a, n, 0);
        for (i, other) in [json!(format!("{aud}x")), json!(""), json!(null), json!([format!("{aud}y")]), json!(7), json!([]), json!([[]]), json!({}), json!([null]), json!([[aud]])].iter().enumerate() {
            if *other == json!(aud) {
                continue;
            }
            let mut p = honest_payload();
            p["aud"] = other.clone();
            must_reject(l, "aud", 1 + i as u64, &with_kb(Some(api::sign_kb(halg, 0, &p, Some("kb+jwt")))), a, n, 0);
        }
    }
    // 5b. near misses: the KB-JWT names an aud / nonce that equals the expected one only under some
    // normalisation (trailing slash, case, blanks, fragment / query, default port, composed vs
    // decomposed Unicode), and type confusion: a NON-string claim whose JSON text equals the
    // expected string (20240131 vs "20240131", absent / null vs "null", true vs "true")
    {
        let near = |s: &str| -> Vec<String> {
            let mut v = vec![
                format!("{s}/"), format!("{s} "), format!(" {s}"), format!("{s}#"), format!("{s}?"), format!("{s}\u{0}"), format!("{s}\n"), s.to_uppercase(), s.to_lowercase(),
                s.trim_end_matches('/').to_string(), s.trim().to_string(), s.replace("https://", "http://"), s.replace("é", "e\u{301}"), s.replace(":443", ""), format!("\"{s}\""),
                format!("{s} {s}"), format!("{s},{s}"), format!("{s}="), format!("{s}=="), s.trim_end_matches('=').to_string(), format!("[\"{s}\"]"),
            ];
            if let Some(st) = s.strip_suffix('/') {
                v.push(st.to_string());
            }
            // the case of ONE letter flipped (the first and the last letter of the text)
            for at in [s.char_indices().find(|(_, c)| c.is_ascii_alphabetic()), s.char_indices().rev().find(|(_, c)| c.is_ascii_alphabetic())].into_iter().flatten() {
                let c = at.1;
                let flipped = if c.is_ascii_lowercase() { c.to_ascii_uppercase() } else { c.to_ascii_lowercase() };
                v.push(format!("{}{}{}", &s[..at.0], flipped, &s[at.0 + 1..]));
            }
            v.retain(|x| x != s);
            v.sort();
            v.dedup();
            v
        };
        for (i, other) in near(&aud).into_iter().enumerate() {
            let mut p = honest_payload();
            p["aud"] = json!(other);
            must_reject(l, "aud-near-miss", i as u64, &with_kb(Some(api::sign_kb(halg, 0, &p, Some("kb+jwt")))), a, n, 0);
            // and the other way round: honest KB-JWT, verifier expects the near miss
            must_reject(l, "aud-near-miss", 100 + i as u64, &parts, Some(&other), n, 0);
            // aud given as a list containing the near miss / containing the exact value next to others
            let mut p = honest_payload();
            p["aud"] = json!([other]);
            must_reject(l, "aud-near-miss", 200 + i as u64, &with_kb(Some(api::sign_kb(halg, 0, &p, Some("kb+jwt")))), a, n, 0);
        }
        for (i, other) in near(&nonce).into_iter().enumerate() {
            let mut p = honest_payload();
            p["nonce"] = json!(other);
            must_reject(l, "nonce-near-miss", i as u64, &with_kb(Some(api::sign_kb(halg, 0, &p, Some("kb+jwt")))), a, n, 0);
            must_reject(l, "nonce-near-miss", 100 + i as u64, &parts, a, Some(&other), 0);
        }
        // type confusion on the claim the verifier compares with its expected TEXT
        for (i, lit) in ["null", "true", "false", "20240131", "0", "-1", "1.0", "[1]", "{}", "[]", "\"n\""].iter().enumerate() {
            let val: Value = match serde_json::from_str(lit) {
                Ok(v) => v,
                Err(_) => continue,
            };
            for (field, fi) in [("nonce", 0u64), ("aud", 1)] {
                let mut p = honest_payload();
                p[field] = val.clone();
                let exp_a = if field == "aud" { Some(*lit) } else { a };
                let exp_n = if field == "nonce" { Some(*lit) } else { n };
                // only a confusion when the value is not itself the expected string
                if val.as_str() == Some(*lit) {
                    continue;
                }
                must_reject(l, "claim-type-confusion", (i as u64) * 4 + fi, &with_kb(Some(api::sign_kb(halg, 0, &p, Some("kb+jwt")))), exp_a, exp_n, 0);
                if *lit == "null" {
                    let mut q = honest_payload();
                    q.as_object_mut().unwrap().remove(field);
                    must_reject(l, "claim-type-confusion", (i as u64) * 4 + fi + 2, &with_kb(Some(api::sign_kb(halg, 0, &q, Some("kb+jwt")))), exp_a, exp_n, 0);
                }
            }
        }
        // control for the class: the STRING forms are accepted
        for lit in ["null", "20240131", "true"] {
            let mut p = honest_payload();
            p["nonce"] = json!(lit);
            let q = with_kb(Some(api::sign_kb(halg, 0, &p, Some("kb+jwt"))));
            if let Some(enc) = q.encode(fmt, 0) {
                let v = api::verify(&enc, &resolver, Some((&aud, lit)), fmt);
                l.evals += 1;
                if v.out.is_ok() {
                    l.count("control.literal-looking-nonce.accepted");
                } else {
                    l.violate(Violation {
                        subcheck: "control-rejected".into(),
                        class: format!("KB-JWT whose nonce is the string {lit:?} ({})", fmt.name()),
                        observed: v.out.panic_signature().unwrap_or_else(|| v.out.describe()),
                        case,
                        detail: json!({"credential": desc, "nonce": lit}),
                    });
                }
            }
        }
    }
    // honest KB-JWTs (signing oracle) whose iat is minutes / a day old, or slightly ahead: the property
    // names no freshness window, a stored presentation is still a valid one
    for (k, dt) in [-900i64, -86_400, -3_600, 30].iter().enumerate() {
        let mut p = honest_payload();
        p["iat"] = json!((api::now() as i64 + dt) as u64);
        let q = with_kb(Some(api::sign_kb(halg, 0, &p, Some("kb+jwt"))));
        if let Some(enc) = q.encode(fmt, 0) {
            let v = api::verify(&enc, &resolver, Some((&aud, &nonce)), fmt);
            l.evals += 1;
            if v.out.is_ok() {
                l.count("control.kb-iat-not-now.accepted");
            } else {
                l.violate(Violation {
                    subcheck: "control-rejected".into(),
                    class: format!("honest KB-JWT whose iat is {dt} s from now ({})", fmt.name()),
                    observed: v.out.panic_signature().unwrap_or_else(|| v.out.describe()),
                    case,
                    detail: json!({"credential": desc, "kb_iat_offset_s": dt, "k": k}),
                });
            }
        }
    }
    // verifier expecting a different aud / nonce (honest presentation)
    {
        let other_aud = format!("{aud}-other");
        let other_nonce = format!("{nonce}-other");
        must_reject(l, "verifier-expects-other", 0, &parts, Some(&other_aud), n, 0);
        must_reject(l, "verifier-expects-other", 1, &parts, a, Some(&other_nonce), 0);
        if aud != nonce {
            must_reject(l, "verifier-expects-other", 2, &parts, n, a, 0); // swapped
        }
        if !aud.is_empty() {
            must_reject(l, "verifier-expects-other", 3, &parts, Some(""), n, 0);
        }
        if !nonce.is_empty() {
            must_reject(l, "verifier-expects-other", 4, &parts, a, Some(""), 0);
        }
    }
    // 10. only one of aud / nonce — with the KB-JWT, and with the KB-JWT removed (absent / null)
    must_reject(l, "one-of-aud-nonce", 0, &parts, a, None, 0);
    must_reject(l, "one-of-aud-nonce", 1, &parts, None, n, 0);
    for variant in 0..3 {
        must_reject(l, "one-of-aud-nonce", 10 + variant, &with_kb(None), a, None, variant);
        must_reject(l, "one-of-aud-nonce", 20 + variant, &with_kb(None), None, n, variant);
    }

    // 6. sd_hash absent / wrong / over another disclosure set
    {
        let mut p = honest_payload();
        p.as_object_mut().unwrap().remove("sd_hash");
        must_reject(l, "sd_hash", 0, &with_kb(Some(api::sign_kb(halg, 0, &p, Some("kb+jwt")))), a, n, 0);
        let wrongs = vec![
            json!(model::digest_of("something else")),
            json!(""),
            json!(null),
            json!(sd_hash_of(&parts.jwt, &issued.parts.disclosures[..issued.parts.disclosures.len().min(1)])),
            json!(sd_hash_of(&parts.jwt, &[])),
            json!(model::digest_of(&parts.jwt)),
            json!(sd_hash_of(&parts.jwt, &parts.disclosures).to_uppercase()),
            // the right digest, spelled differently: '=' appended, and the last character replaced by
            // the three others that share its four significant bits (a lenient decoder reads the same octets)
            json!(format!("{}=", sd_hash_of(&parts.jwt, &parts.disclosures))),
            {
                let h = sd_hash_of(&parts.jwt, &parts.disclosures);
                let last = h.chars().last().unwrap_or('A');
                let idx = tamper::B64URL.find(last).unwrap_or(0);
                let alt = tamper::B64URL.as_bytes()[(idx & !3) | ((idx + 1 + r.usize(3)) & 3)] as char;
                json!(format!("{}{}", &h[..h.len() - 1], alt))
            },
            // the right digest function over ALMOST the right string: no closing '~', a doubled one,
            // a leading one, the disclosures alone, the whole presentation incl. an empty KB slot,
            // the JSON document; and the right string under another function / encoding
            json!(model::digest_of(&format!("{}{}", parts.jwt, parts.disclosures.iter().map(|d| format!("~{d}")).collect::<String>()))),
            json!(model::digest_of(&format!("{}{}~~", parts.jwt, parts.disclosures.iter().map(|d| format!("~{d}")).collect::<String>()))),
            json!(model::digest_of(&format!("~{}{}~", parts.jwt, parts.disclosures.iter().map(|d| format!("~{d}")).collect::<String>()))),
            json!(model::digest_of(&parts.disclosures.iter().map(|d| format!("{d}~")).collect::<String>())),
            json!(model::digest_of(&parts.disclosures.join("~"))),
            json!(model::digest_of(&Parts { jwt: parts.jwt.clone(), disclosures: parts.disclosures.clone(), kb: None }.to_json(0).unwrap_or_default())),
            {
                use base64::Engine;
                use sha2::Digest;
                let right = format!("{}{}~", parts.jwt, parts.disclosures.iter().map(|d| format!("~{d}")).collect::<String>());
                let h = sha2::Sha256::digest(right.as_bytes());
                match r.below(4) {
                    0 => json!(base64::engine::general_purpose::STANDARD.encode(h)),
                    1 => json!(base64::engine::general_purpose::URL_SAFE.encode(h)),
                    2 => json!(h.iter().map(|b| format!("{b:02x}")).collect::<String>()),
                    _ => json!(model::b64e(&sha2::Sha512::digest(right.as_bytes()))),
                }
            },
        ];
        let honest = json!(sd_hash_of(&parts.jwt, &parts.disclosures));
        for (i, w) in wrongs.into_iter().enumerate() {
            if w == honest {
                continue;
            }
            let mut p = honest_payload();
            p["sd_hash"] = w;
            must_reject(l, "sd_hash", 1 + i as u64, &with_kb(Some(api::sign_kb(halg, 0, &p, Some("kb+jwt")))), a, n, 0);
        }
    }
    // 7. replay of the honest KB-JWT onto other disclosure sequences / another credential
    {
        let mut more = parts.clone();
        if let Some(extra) = issued.parts.disclosures.iter().find(|d| !parts.disclosures.contains(d)) {
            more.disclosures.push(extra.clone());
            must_reject(l, "replay-more", 0, &more, a, n, 0);
            let mut front = parts.clone();
            front.disclosures.insert(0, extra.clone());
            must_reject(l, "replay-more", 1, &front, a, n, 0);
        }
        // a byte-identical copy of an already presented disclosure added (every position)
        for k in 0..parts.disclosures.len().min(4) {
            for at in [0, k + 1, parts.disclosures.len()] {
                let mut dup = parts.clone();
                dup.disclosures.insert(at.min(dup.disclosures.len()), parts.disclosures[k].clone());
                must_reject(l, "replay-more", 10 + (k as u64) * 4 + at as u64, &dup, a, n, 0);
            }
        }
        // disclosures glued together with the separator into ONE list element (JSON): the hashed
        // string stays the same, the disclosures become unreadable
        if parts.disclosures.len() >= 2 {
            let mut glued = parts.clone();
            glued.disclosures = vec![parts.disclosures.join("~")];
            must_reject(l, "replay-glued", 0, &glued, a, n, 0);
            let mut glued2 = parts.clone();
            let first_two = format!("{}~{}", parts.disclosures[0], parts.disclosures[1]);
            glued2.disclosures = std::iter::once(first_two).chain(parts.disclosures.iter().skip(2).cloned()).collect();
            must_reject(l, "replay-glued", 1, &glued2, a, n, 0);
        }
        // empty-string entries added to the list (JSON; in compact that is a doubled '~')
        for at in [0usize, parts.disclosures.len() / 2, parts.disclosures.len()] {
            let mut e = parts.clone();
            e.disclosures.insert(at.min(e.disclosures.len()), String::new());
            must_reject(l, "replay-more", 50 + at as u64, &e, a, n, 0);
        }
        // a presented disclosure respelled after the KB-JWT was made (the same octets in the standard base64
        // alphabet, '=' padding, a percent-escape): the KB-JWT does not cover that text
        for (k, d) in parts.disclosures.iter().enumerate() {
            let mut spellings: Vec<String> = vec![];
            if d.contains('-') || d.contains('_') {
                spellings.push(d.replace('-', "+").replace('_', "/"));
                spellings.push(d.replacen('-', "%2D", 1).replacen('_', "%5F", 1));
            }
            if k < 2 {
                spellings.push(format!("{d}="));
            }
            for (i, sp) in spellings.into_iter().enumerate() {
                let mut re = parts.clone();
                re.disclosures[k] = sp;
                must_reject(l, "replay-respelled", (k * 4 + i) as u64, &re, a, n, 0);
            }
        }
        // a forged (unreferenced) disclosure added
        let mut forged = parts.clone();
        forged.disclosures.push(model::b64e(json!(["s", "zz", 1]).to_string().as_bytes()));
        must_reject(l, "replay-more", 2, &forged, a, n, 0);
        if !parts.disclosures.is_empty() {
            for k in 0..parts.disclosures.len().min(3) {
                let mut fewer = parts.clone();
                fewer.disclosures.remove(k);
                must_reject(l, "replay-fewer", k as u64, &fewer, a, n, 0);
            }
        }
        if parts.disclosures.len() >= 2 {
            let mut re = parts.clone();
            re.disclosures.reverse();
            if re.disclosures != parts.disclosures {
                must_reject(l, "replay-reordered", 0, &re, a, n, 0);
            }
            let mut sw = parts.clone();
            sw.disclosures.swap(0, 1);
            if sw.disclosures != parts.disclosures {
                must_reject(l, "replay-reordered", 1, &sw, a, n, 0);
            }
        }
        // another credential of the same holder (same claims, new issuance)
        if let Ok(other) = pipeline::issue_scenario(&s) {
            if let Outcome::Ok(mut h) = api::holder_new(&other.sd_jwt, fmt) {
                if let Outcome::Ok(p2) = api::present(&mut h, &sel, None) {
                    if let Ok(mut p2) = Parts::parse(fmt, &p2) {
                        p2.kb = Some(honest_kb.clone());
                        must_reject(l, "replay-other-credential", 0, &p2, a, n, 0);
                    }
                }
            }
        }
    }
    // 7b. JSON only: a withheld disclosure smuggled in through an unknown / JWS-family member after
    // the holder signed (`header.disclosures`, `unprotected.disclosures`, ...): either refused, or
    // accepted with exactly the claims of the honest presentation
    if fmt == Fmt::Json {
        if let (Some(extra), Outcome::Ok(honest_claims)) = (issued.parts.disclosures.iter().find(|d| !parts.disclosures.contains(d)), &control.out) {
            if let Some(Ok(Value::Object(doc))) = parts.to_json(0).map(|t| serde_json::from_str::<Value>(&t)) {
                for (k, (mname, mval)) in [
                    ("header", json!({"disclosures": [extra]})),
                    ("unprotected", json!({"disclosures": [extra]})),
                    ("header", json!({"disclosures": [extra], "kb_jwt": honest_kb})),
                    ("extra_disclosures", json!([extra])),
                    ("_sd", json!([extra])),
                    ("Disclosures", json!([extra])),
                ].into_iter().enumerate() {
                    let mut d2 = doc.clone();
                    d2.insert(mname.to_string(), mval);
                    let text = Value::Object(d2).to_string();
                    let v = api::verify(&text, &resolver, Some((&aud, &nonce)), fmt);
                    l.evals += 1;
                    l.distinct(crate::rng::mix(case ^ gen::hash_str("smuggled") ^ k as u64));
                    match &v.out {
                        Outcome::Err(_) => l.count("attack.smuggled-disclosure.rejected"),
                        Outcome::Ok(c) if c == honest_claims => l.count("attack.smuggled-disclosure.ignored"),
                        Outcome::Ok(c) => l.violate(Violation {
                            subcheck: "key-binding-bypassed".into(),
                            class: format!("withheld disclosure added in the JSON member `{mname}` after signing"),
                            observed: "Ok with claims the holder did not present".into(),
                            case,
                            detail: json!({"credential": desc, "member": mname, "document": text, "claims": c, "honest_claims": honest_claims}),
                        }),
                        pn @ Outcome::Panic(..) => l.violate(Violation { subcheck: "panic".into(), class: format!("JSON member `{mname}`"), observed: pn.panic_signature().unwrap(), case, detail: json!({"document": text}) }),
                    }
                }
            }
        }
    }
    // 8. credential without cnf: holder signs a KB-JWT anyway
    {
        let mut issuer = api::new_issuer(cfg.alg, 0, true);
        if let Ok(nocnf) = pipeline::issue_with(&mut issuer, &s.u, &s.strat, None, cfg.decoys, fmt) {
            if let Outcome::Ok(mut h) = api::holder_new(&nocnf.sd_jwt, fmt) {
                if let Outcome::Ok(p) = api::present(&mut h, &sel, Some(&kb)) {
                    if let Ok(p) = Parts::parse(fmt, &p) {
                        must_reject(l, "no-cnf", 0, &p, a, n, 0);
                        // 9. cnf supplied only through a forged disclosure; KB-JWT recomputed over the new sequence
                        let mut f = p.clone();
                        f.disclosures.push(model::b64e(json!(["salt", "cnf", {"jwk": keys::holder_jwk_json_canonical(halg, 0)}]).to_string().as_bytes()));
                        let pl = json!({"nonce": nonce, "aud": aud, "iat": api::now(), "sd_hash": sd_hash_of(&f.jwt, &f.disclosures)});
                        f.kb = Some(api::sign_kb(halg, 0, &pl, Some("kb+jwt")));
                        must_reject(l, "no-cnf", 1, &f, a, n, 0);
                    }
                }
            }
        }
    }
}
