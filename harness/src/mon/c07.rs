//! C07 — every public entry point returns Ok or Err on any input; nothing panics.
//! Hostile-input sweep in worker subprocesses. Each worker writes the case number to a
//! write-ahead file before running it, so a crash (SIGSEGV from stack overflow, SIGABRT) or a
//! hang identifies its input; panics are caught per call and reported with site and message.
//! Thorough tier re-runs a down-sampled sweep under ASan, valgrind memcheck and Miri (legs.rs).

use crate::api::{self, Outcome, Resolver};
use crate::evidence::{run_cases, run_sharded, Ctx, Local, Report, Tier, Violation};
use crate::gen::{self, GenCfg, Profile, StratKind, PROFILES, STRAT_KINDS};
use crate::keys::{self, Alg, ALL_ALGS};
use crate::model::{self, b64e, Fmt, Parts, FMTS};
use crate::mon::c08;
use crate::pipeline;
use crate::rng::Rng;
use crate::tamper;
use serde_json::{json, Map, Value};
use std::io::{Seek, Write};

const STREAM: u64 = 7;
pub const CLASSES: [&str; 9] = [
    "random-bytes",
    "char-mutated",
    "part-mutated",
    "json-member-flip",
    "payload-type-flip",
    "signed-structures",
    "holder-selections",
    "issuer-inputs",
    "kb-shapes",
];

pub fn cases_for_leg(ctx: &Ctx, leg: &str) -> u64 {
    match leg {
        "asan" => ctx.cases(0, 400_000),
        "valgrind" => ctx.cases(0, 16_000),
        "miri" => ctx.cases(0, 192).max(96),
        _ => ctx.cases(300_000, 6_000_000),
    }
}

pub fn cases_for(ctx: &Ctx) -> u64 {
    cases_for_leg(ctx, std::env::var("VERIF_LEG").unwrap_or_default().as_str())
}

pub fn run(ctx: &Ctx) -> Report {
    let n = cases_for(ctx);
    let mut inconclusive = vec![];
    let mut extra_violations: Vec<Violation> = vec![];
    let local = if ctx.shard.is_some() || ctx.only_case.is_some() {
        // worker
        let wal = std::env::var("VERIF_WAL").ok().and_then(|p| std::fs::OpenOptions::new().create(true).write(true).truncate(true).open(p).ok());
        let wal = std::sync::Mutex::new(wal);
        run_cases(ctx, n, |case, l| {
            if let Ok(mut g) = wal.lock() {
                if let Some(f) = g.as_mut() {
                    // one line per thread would need per-thread files; cases are cheap to re-run,
                    // so the last 64 started cases are kept as a ring of fixed-width records
                    let slot = (case % 64) * 24;
                    let _ = f.seek(std::io::SeekFrom::Start(slot));
                    let _ = f.write_all(format!("{case:>22}\n ").as_bytes());
                }
            }
            one_case(ctx, case, l)
        })
    } else {
        let shards = 16;
        let (mut l, ends) = run_sharded(ctx, shards, 1, None, &[], "native");
        let mut dead_analysed = 0u32;
        for e in ends {
            if e.ok {
                continue;
            }
            if !extra_violations.is_empty() && dead_analysed >= 2 {
                // a crash / hang is already confirmed by an isolated re-run: the other dead workers
                // are not analysed one by one (each hanging case costs a minute)
                let _ = std::fs::remove_file(&e.log_path);
                continue;
            }
            dead_analysed += 1;
            // a worker died: which cases was it running?
            let started: Vec<u64> = std::fs::read_to_string(&e.log_path)
                .unwrap_or_default()
                .split_whitespace()
                .filter_map(|t| t.parse().ok())
                .collect();
            let mut confirmed = false;
            for c in started.iter().rev().take(64) {
                // isolated re-run of one case in a fresh, otherwise idle subprocess, 60 s limit
                use std::os::unix::process::ExitStatusExt;
                let child = std::process::Command::new(std::env::current_exe().unwrap())
                    .args([ctx.property.as_str(), ctx.tier.name(), "--case", &c.to_string()])
                    .env("VERIF_SEED", ctx.seed.to_string())
                    .env("VERIF_OUT", format!("{}/.partials", ctx.out_dir))
                    .stdout(std::process::Stdio::null())
                    .stderr(std::process::Stdio::null())
                    .spawn();
                let mut child = match child {
                    Ok(c) => c,
                    Err(_) => continue,
                };
                let t0 = std::time::Instant::now();
                let verdict: Option<(String, String)> = loop {
                    match child.try_wait() {
                        Ok(Some(st)) => break st.signal().map(|s| ("process-died".to_string(), format!("signal {s}"))),
                        Ok(None) => {
                            if t0.elapsed().as_secs() > 60 {
                                let _ = child.kill();
                                let _ = child.wait();
                                break Some(("non-termination".to_string(), "a single case did not finish within 60 s in an idle subprocess".to_string()));
                            }
                            std::thread::sleep(std::time::Duration::from_millis(10));
                        }
                        Err(_) => break None,
                    }
                };
                if let Some((sub, obs)) = verdict {
                    confirmed = true;
                    extra_violations.push(Violation {
                        subcheck: sub,
                        class: "worker subprocess".into(),
                        observed: obs,
                        case: *c,
                        detail: json!({"note": "re-run this case with ./check C07 --replay", "shard_stderr": e.stderr_tail.chars().take(1500).collect::<String>()}),
                    });
                    break;
                }
            }
            if !confirmed {
                inconclusive.push(format!("worker shard {} ended abnormally (code {:?}, signal {:?}) and no single case reproduced it: {}", e.shard, e.code, e.signal, e.stderr_tail.chars().take(300).collect::<String>()));
            }
            let _ = std::fs::remove_file(&e.log_path);
        }
        for v in extra_violations {
            l.violate(v);
        }
        l
    };
    let mut rep = Report::new(
        "exploration",
        "case i: workload class i%9 (random bytes/UTF-8 up to 4 KB; character-, part- and JSON-member-level mutations of valid SD-JWTs \
         and presentations in both formats; payload type-flip at every node position (unsigned, reaches the holder) and re-signed \
         (reaches the verifier); validly signed ill-formed payload/disclosure structures from the C08 builder; cnf / KB-JWT of every \
         shape; arbitrary selection JSON on issued and on narrowed credentials; issuer inputs: non-object claims, any Unicode scalar \
         value, nesting <= 64, ~200 path strings). Each input goes to every applicable entry point (holder constructor + presentation, \
         verifier with and without key binding, issuer). evaluations = public API calls made. Distinct = (class, structural fingerprint \
         of the input); non-trivial = the input is not a valid unmodified token.",
        local,
    );
    rep.inconclusive = inconclusive;
    rep.assumptions = vec![
        "mock_salts' expect(\"SALTS is empty\") is outside the default build; unimplemented!() for extra headers is unreachable through the public API".into(),
        "non-termination is restated as bounded progress: the whole sweep runs under a wall-clock watchdog whose firing is inconclusive until an isolated re-run confirms".into(),
    ];
    if ctx.shard.is_none() && ctx.only_case.is_none() {
        for c in CLASSES {
            rep.floor(&format!("class.{c}"), 100);
        }
        rep.floor("api.verify.err", 1000);
        rep.floor("api.holder_new.err", 1000);
        rep.floor("api.present.err", 100);
        rep.floor("api.issue.err", 100);
        if ctx.tier == Tier::Thorough {
            crate::legs::c07_legs(ctx, &mut rep);
        }
    }
    rep
}

pub fn rand_json(r: &mut Rng, d: u32) -> Value {
    match r.below(if d == 0 { 6 } else { 9 }) {
        0 => Value::Null,
        1 => json!(r.below(2) == 0),
        2 => json!(r.below(100)),
        3 => json!(*r.pick(&["a", "_sd", "...", "iss", "k", "x😀", "", "sha-256", "cnf", "jwk"])),
        4 => json!(1.5),
        5 => json!(-7),
        6 | 7 => Value::Array((0..r.below(4)).map(|_| rand_json(r, d - 1)).collect()),
        _ => Value::Object(
            (0..r.below(4))
                .map(|_| ((*r.pick(&["a", "b", "_sd", "...", "k", "arr", "o", "_sd_alg", "cnf", "jwk", "iss", "exp"])).to_string(), rand_json(r, d - 1)))
                .collect(),
        ),
    }
}

struct Seeds {
    /// (text, format, is_presentation_with_kb)
    tokens: Vec<(String, Fmt, bool)>,
    claims: Value,
    /// panics seen while issuing the honest seed credentials (reported once per worker)
    failures: Vec<String>,
}

fn make_seeds(r: &mut Rng) -> Seeds {
    let now = api::now();
    let sel = json!({"a": true, "o": {"k": [true, {"z": true}]}, "arr": [[true, false], [true]]});
    let mut failures: Vec<String> = vec![];
    // first choice has non-ASCII text and an empty array; the plain variant is the fallback so
    // that the sweep still has seeds when an honest issuance itself fails (which is reported)
    for variant in 0..2 {
        let mut claims = json!({"iss": "https://issuer.example/A", "exp": now + 36000, "a": "x", "o": {"k": [1, {"z": "q"}], "m": null}, "arr": [[1, 2], [3]]});
        if variant == 0 {
            claims["e"] = json!([]);
            claims["u"] = json!("é😀");
        }
        let mut tokens = vec![];
        for fmt in FMTS {
            for decoy in [false, true] {
                for kb in [false, true] {
                    let strat = gen::gen_strategy(r, &claims, StratKind::AllLevels);
                    let mut issuer = api::new_issuer(Alg::ES256, 0, true);
                    let holder = if kb { Some((Alg::ES256, 0)) } else { None };
                    match api::issue(&mut issuer, &claims, &strat, holder, decoy, fmt) {
                        Outcome::Ok(sd) => {
                            tokens.push((sd.clone(), fmt, false));
                            if let Outcome::Ok(mut h) = api::holder_new(&sd, fmt) {
                                let kba = holder.map(|hk| api::KbArgs { nonce: "n".into(), aud: "aud".into(), alg: hk.0, key_idx: hk.1, explicit_alg: true });
                                if let Outcome::Ok(p) = api::present(&mut h, &sel, kba.as_ref()) {
                                    tokens.push((p, fmt, kb));
                                }
                            }
                        }
                        other => {
                            if let Some(sig) = other.panic_signature() {
                                if !failures.contains(&sig) {
                                    failures.push(sig);
                                }
                            }
                        }
                    }
                }
            }
        }
        if tokens.len() >= 8 {
            return Seeds { tokens, claims, failures };
        }
    }
    Seeds { tokens: vec![("x~".into(), Fmt::Compact, false), ("{}".into(), Fmt::Json, false)], claims: json!({}), failures }
}

thread_local! {
    static SEEDS: std::cell::RefCell<Option<std::rc::Rc<Seeds>>> = const { std::cell::RefCell::new(None) };
}
fn seeds(r: &mut Rng) -> std::rc::Rc<Seeds> {
    SEEDS.with(|s| {
        let mut s = s.borrow_mut();
        if s.is_none() {
            *s = Some(std::rc::Rc::new(make_seeds(r)));
        }
        s.as_ref().unwrap().clone()
    })
}

struct Probe<'a> {
    case: u64,
    class: &'static str,
    l: &'a mut Local,
}

impl<'a> Probe<'a> {
    fn judge<T>(&mut self, entry: &str, out: &Outcome<T>, input: &dyn Fn() -> Value) {
        self.l.evals += 1;
        if let Outcome::Panic(..) = out {
            let sig = out.panic_signature().unwrap();
            self.l.violate(Violation {
                subcheck: "panic".into(),
                class: format!("{} -> {entry}", self.class),
                observed: sig,
                case: self.case,
                detail: json!({"entry_point": entry, "input": input(), "history": api::history()}),
            });
        }
    }
    /// feed a string to holder constructor (+ presentation) and verifier (with / without KB)
    fn feed(&mut self, text: &str, fmt: Fmt, r: &mut Rng, sel: Option<&Value>) {
        let input = || json!({"format": fmt.name(), "text": text.chars().take(3000).collect::<String>()});
        let h = api::holder_new(text, fmt);
        self.judge("SDJWTHolder::new", &h, &input);
        if let Outcome::Ok(mut h) = h {
            let default_sel = json!({"a": true, "o": {"k": [false, {"z": true}], "zz": {"y": 1}}, "arr": [[true, true, true], true, [1]], "nope": [true], "k1": true, "k2": {"k3": true}, "k4": [true, {"k9": true}, [true]]});
            let s = sel.unwrap_or(&default_sel);
            let p = api::present(&mut h, s, None);
            self.judge("create_presentation", &p, &|| json!({"holder_input": input(), "selection": s}));
            if r.chance(30) {
                let kb = api::KbArgs { nonce: "n".into(), aud: "a".into(), alg: Alg::ES256, key_idx: 0, explicit_alg: r.chance(50) };
                let p = api::present(&mut h, &json!({}), Some(&kb));
                self.judge("create_presentation(kb)", &p, &|| json!({"holder_input": input()}));
            }
        }
        let res = Resolver::Fixed(*r.pick(&ALL_ALGS), 0);
        let v = api::verify(text, &res, None, fmt);
        self.judge("SDJWTVerifier::new", &v.out, &input);
        let v = api::verify(text, &res, Some(("aud", "n")), fmt);
        self.judge("SDJWTVerifier::new(kb)", &v.out, &input);
        if r.chance(10) {
            let v = api::verify_raw(text, &res, Some("aud".into()), None, fmt);
            self.judge("SDJWTVerifier::new(aud only)", &v.out, &input);
        }
    }
}

fn flip_node(v: &Value, target: usize, counter: &mut usize, r: &mut Rng) -> Value {
    let me = *counter;
    *counter += 1;
    if me == target {
        // a value of a different JSON type
        let choices = [json!(null), json!(true), json!(3), json!("s"), json!([]), json!({}), json!(["x"]), json!({"_sd": 5}), json!({"...": 1}), json!(1.5)];
        for _ in 0..8 {
            let c = r.pick(&choices).clone();
            if std::mem::discriminant(&c) != std::mem::discriminant(v) {
                return c;
            }
        }
        return Value::Null;
    }
    match v {
        Value::Object(m) => Value::Object(m.iter().map(|(k, c)| (k.clone(), flip_node(c, target, counter, r))).collect()),
        Value::Array(a) => Value::Array(a.iter().map(|c| flip_node(c, target, counter, r)).collect()),
        x => x.clone(),
    }
}
fn count_nodes(v: &Value) -> usize {
    1 + match v {
        Value::Object(m) => m.values().map(count_nodes).sum(),
        Value::Array(a) => a.iter().map(count_nodes).sum(),
        _ => 0,
    }
}

const MUT_ALPHABET: &str = "ABCDEFGHIJKLMNOPQRSTUVWXYZabcdefghijklmnopqrstuvwxyz0123456789-_.~= \"{}[]:,\\\n\u{0}é😀";

pub fn one_case(ctx: &Ctx, case: u64, l: &mut Local) {
    let mut r = Rng::for_case(ctx.seed, STREAM, case);
    let class = CLASSES[(case % 9) as usize];
    l.count(&format!("class.{class}"));
    let sd = seeds(&mut Rng::for_case(ctx.seed, STREAM, 0xFFFF));
    if case < 16 {
        for f in &sd.failures {
            l.violate(Violation { subcheck: "panic".into(), class: "honest seed issuance -> issue_sd_jwt".into(), observed: f.clone(), case, detail: json!({"note": "issuing the sweep's seed credential (claims with non-ASCII text and an empty array, AllLevels) panicked"}) });
        }
    }
    let mut p = Probe { case, class, l };
    let alphabet: Vec<char> = MUT_ALPHABET.chars().collect();
    let fp_base = gen::hash_str(class);
    match class {
        "random-bytes" if r.chance(30) => {
            // a three-segment token whose header / payload segment decodes to bytes with a byte-order
            // mark, other encodings' signatures or truncated multi-byte sequences, of odd and even length
            let prefixes: [&[u8]; 12] = [&[0xEF, 0xBB, 0xBF], &[0xFF, 0xFE], &[0xFE, 0xFF], &[0xFF, 0xFE, 0, 0], &[0, 0, 0xFE, 0xFF], &[0x1F, 0x8B], &[0], &[b'{'], &[0xC3], &[0xE2, 0x82], &[0xF0, 0x9F, 0x98], &[]];
            let body_text = *r.pick(&["{\"iss\":\"i\",\"exp\":4000000000}", "{}", "", "{\"a\":", "x", "{\u{0}}"]);
            let mut bytes: Vec<u8> = r.pick(&prefixes).to_vec();
            match r.below(3) {
                0 => bytes.extend(body_text.as_bytes()),
                1 => bytes.extend(body_text.encode_utf16().flat_map(|u| u.to_le_bytes())),
                _ => bytes.extend(body_text.encode_utf16().flat_map(|u| u.to_be_bytes())),
            }
            if r.chance(50) {
                bytes.push(*r.pick(&[0u8, b'}', 0xFF, 0x80, b' ']));
            }
            let seg = b64e(&bytes);
            let good_h = if r.chance(40) {
                // header whose alg (or typ / kid) holds multi-byte characters at every small byte offset
                let swept = tamper::boundary_text(&mut r);
                let a: &str = if r.chance(50) {
                    &swept
                } else {
                    *r.pick(&["ES2\u{e9}", "non\u{e9}", "\u{e9}\u{e9}", "ES25\u{1f600}", "E\u{1f600}", "\u{1f600}", "none\u{e9}", "HS2\u{20ac}6", "", "NONE", "nOnE", "E\u{17f}56", "\u{20ac}S2", "ES\u{b2}6", "H\u{e9}256", "\u{e9}S256"])
                };
                match r.below(3) {
                    0 => b64e(json!({"alg": a}).to_string().as_bytes()),
                    1 => b64e(json!({"alg": "ES256", "typ": a}).to_string().as_bytes()),
                    _ => b64e(json!({"alg": a, "kid": a, "typ": a}).to_string().as_bytes()),
                }
            } else {
                b64e(b"{\"alg\":\"ES256\"}")
            };
            let good_p = b64e(b"{\"iss\":\"i\",\"exp\":4000000000}");
            let jwt = match r.below(3) {
                0 => format!("{good_h}.{seg}.AAAA"),
                1 => format!("{seg}.{good_p}.AAAA"),
                _ => format!("{seg}.{seg}.{seg}"),
            };
            p.l.distinct(crate::rng::mix(fp_base ^ gen::hash_str(&jwt)));
            for fmt in FMTS {
                let parts = Parts { jwt: jwt.clone(), disclosures: if r.chance(50) { vec![] } else { vec![seg.clone()] }, kb: if r.chance(30) { Some(jwt.clone()) } else { None } };
                if let Some(t) = parts.encode(fmt, 0) {
                    p.feed(&t, fmt, &mut r, None);
                }
            }
        }
        "random-bytes" => {
            let len = match r.below(4) {
                0 => r.usize(16),
                1 => r.usize(200),
                _ => r.usize(4096),
            };
            let text: String = if r.chance(50) {
                (0..len).map(|_| *r.pick(&alphabet)).collect()
            } else {
                // arbitrary bytes, lossily decoded (the API takes String)
                let bytes: Vec<u8> = (0..len).map(|_| r.below(256) as u8).collect();
                String::from_utf8_lossy(&bytes).to_string()
            };
            p.l.distinct(crate::rng::mix(fp_base ^ gen::hash_str(&text)));
            for fmt in FMTS {
                p.feed(&text, fmt, &mut r, None);
            }
        }
        "char-mutated" => {
            let (seed, fmt, _) = r.pick(&sd.tokens).clone();
            let mut chars: Vec<char> = seed.chars().collect();
            let edits = 1 + r.below(4);
            for _ in 0..edits {
                if chars.is_empty() {
                    break;
                }
                let pos = r.usize(chars.len());
                match r.below(4) {
                    0 => chars[pos] = *r.pick(&alphabet),
                    1 => {
                        chars.remove(pos);
                    }
                    2 => chars.insert(pos, *r.pick(&alphabet)),
                    _ => chars.truncate(pos),
                }
            }
            let text: String = chars.into_iter().collect();
            p.l.distinct(crate::rng::mix(fp_base ^ gen::hash_str(&text)));
            p.feed(&text, fmt, &mut r, None);
            if r.chance(20) {
                p.feed(&text, fmt.other(), &mut r, None);
            }
        }
        "part-mutated" if r.chance(25) => {
            // the whole token (or one part) framed by white space of every Unicode kind, and inputs
            // that mix the two serializations' outer syntax ("{~}", JSON whose disclosures member is
            // the compact tail, compact text wrapped in braces)
            const WS: [char; 26] = ['\u{9}', '\u{a}', '\u{b}', '\u{c}', '\u{d}', ' ', '\u{85}', '\u{a0}', '\u{1680}', '\u{2000}', '\u{2001}', '\u{2002}', '\u{2003}', '\u{2007}', '\u{2009}', '\u{200a}', '\u{2028}', '\u{2029}', '\u{202f}', '\u{205f}', '\u{3000}', '\u{feff}', '\u{200b}', '\u{180e}', '\u{1c}', '\u{1f}'];
            let (seed, fmt, _) = r.pick(&sd.tokens).clone();
            let text = match r.below(8) {
                0 => format!("{}{seed}", r.pick(&WS)),
                1 => format!("{seed}{}", r.pick(&WS)),
                2 => format!("{}{seed}{}", r.pick(&WS), r.pick(&WS)),
                3 => format!("{}{}{seed}{}", r.pick(&WS), r.pick(&WS), r.pick(&WS)),
                4 => (*r.pick(&["{~}", "{}~", "{~", "~}", "{\"a\":1}~", "{~~}", "{\"disclosures\":\"a~b~\"}", "[~]", "{\n~\n}"])).to_string(),
                5 => format!("{{{seed}}}"),
                6 => {
                    // JSON form whose `disclosures` is the compact "d1~d2~" string
                    match serde_json::from_str::<Value>(&seed) {
                        Ok(mut v) if v.is_object() => {
                            let tail = v["disclosures"].as_array().map(|a| a.iter().filter_map(Value::as_str).map(|d| format!("{d}~")).collect::<String>()).unwrap_or_else(|| "a~b~".into());
                            v["disclosures"] = json!(tail);
                            v.to_string()
                        }
                        _ => format!("{{\"protected\":\"e30\",\"payload\":\"e30\",\"signature\":\"\",\"disclosures\":\"{seed}\"}}"),
                    }
                }
                _ => {
                    let c = *r.pick(&WS);
                    seed.replacen('~', &format!("{c}~{c}"), 1)
                }
            };
            p.l.distinct(crate::rng::mix(fp_base ^ gen::hash_str(&text)));
            for f in FMTS {
                p.feed(&text, f, &mut r, None);
            }
            let _ = fmt;
        }
        "part-mutated" => {
            let (seed, fmt, _) = r.pick(&sd.tokens).clone();
            let sep = if r.chance(50) { '~' } else { '.' };
            let mut parts: Vec<String> = seed.split(sep).map(String::from).collect();
            let mut op = 9;
            if parts.len() > 1 {
                let i = r.usize(parts.len());
                op = r.below(6);
                match op {
                    0 => {
                        parts.remove(i);
                    }
                    1 => {
                        let x = parts[i].clone();
                        parts.insert(i, x);
                    }
                    2 => {
                        let j = r.usize(parts.len());
                        parts.swap(i, j);
                    }
                    3 => parts[i] = String::new(),
                    4 => parts[i] = b64e(rand_json(&mut r, 3).to_string().as_bytes()),
                    _ => parts.truncate(i),
                }
            }
            let text = parts.join(&sep.to_string());
            p.l.distinct(crate::rng::mix(fp_base ^ (parts.len() as u64) ^ (op << 8) ^ ((fmt as u64) << 16) ^ ((sep as u64) << 20)));
            p.feed(&text, fmt, &mut r, None);
        }
        "json-member-flip" => {
            let jsons: Vec<&(String, Fmt, bool)> = sd.tokens.iter().filter(|t| t.1 == Fmt::Json).collect();
            if jsons.is_empty() {
                return;
            }
            let (seed, _, _) = (*r.pick(&jsons)).clone();
            let mut v: Value = serde_json::from_str(&seed).unwrap_or(Value::Null);
            let k = *r.pick(&["protected", "payload", "signature", "disclosures", "kb_jwt"]);
            let op = r.below(5);
            match op {
                0 => {
                    if let Some(o) = v.as_object_mut() {
                        o.remove(k);
                    }
                }
                1 => v[k] = rand_json(&mut r, 2),
                2 => v[k] = Value::Null,
                3 => {
                    // disclosures with wrong element types
                    v["disclosures"] = Value::Array((0..r.below(4)).map(|_| rand_json(&mut r, 1)).collect());
                }
                _ => v = rand_json(&mut r, 3),
            }
            if r.chance(12) {
                // shapes of the GENERAL JWS JSON serialization and other near-misses of the flattened one
                let g = |k: &str| v.get(k).cloned().unwrap_or(Value::Null);
                let (pr, pl, sg, ds) = (g("protected"), g("payload"), g("signature"), g("disclosures"));
                v = match r.below(10) {
                    0 => json!({"payload": pl, "signatures": []}),
                    1 => json!({"payload": pl, "signatures": [{}]}),
                    2 => json!({"payload": pl, "signatures": [{"protected": pr, "signature": sg, "header": {"disclosures": ds}}]}),
                    3 => json!({"payload": pl, "signatures": [{"protected": pr, "signature": sg}], "disclosures": ds}),
                    4 => json!({"payload": "e30", "signatures": []}),
                    5 => json!({"payload": pl, "signatures": null, "protected": pr, "signature": sg, "disclosures": []}),
                    6 => json!([{"protected": pr, "payload": pl, "signature": sg, "disclosures": ds}]),
                    7 => json!({"protected": [pr], "payload": [pl], "signature": [sg], "disclosures": ds}),
                    8 => json!({"payload": pl, "signatures": [{"protected": pr, "signature": sg}, {"protected": pr, "signature": sg}], "disclosures": ds, "kb_jwt": []}),
                    _ => json!({"jwt": format!("{}.{}.{}", pr.as_str().unwrap_or(""), pl.as_str().unwrap_or(""), sg.as_str().unwrap_or("")), "disclosures": ds}),
                };
            }
            p.l.distinct(crate::rng::mix(fp_base ^ gen::hash_str(k) ^ (op << 40) ^ gen::shape_fingerprint(&v)));
            p.feed(&v.to_string(), Fmt::Json, &mut r, None);
        }
        "payload-type-flip" => {
            // every node position of a valid payload gets a value of another type; once unsigned
            // (signature stale: reaches the holder, which does not verify) and once re-signed
            let (seed, fmt, _) = r.pick(&sd.tokens).clone();
            if let Ok(parts) = Parts::parse(fmt, &seed) {
                if let Ok(payload) = parts.payload() {
                    let n = count_nodes(&payload);
                    let target = (case / 9) as usize % n;
                    let flipped = flip_node(&payload, target, &mut 0, &mut r);
                    p.l.distinct(crate::rng::mix(fp_base ^ (target as u64) ^ gen::shape_fingerprint(&flipped) ^ ((fmt as u64) << 50)));
                    if let Some(segs) = tamper::segments(&parts.jwt) {
                        let mut unsigned = parts.clone();
                        unsigned.jwt = format!("{}.{}.{}", segs[0], b64e(flipped.to_string().as_bytes()), segs[2]);
                        if let Some(t) = unsigned.encode(fmt, 0) {
                            p.feed(&t, fmt, &mut r, None);
                        }
                    }
                    let mut signed = parts.clone();
                    signed.jwt = api::sign_payload(Alg::ES256, 0, &flipped, None);
                    if let Some(t) = signed.encode(fmt, 0) {
                        let v = api::verify(&t, &Resolver::Fixed(Alg::ES256, 0), None, fmt);
                        p.judge("SDJWTVerifier::new", &v.out, &|| json!({"signed_payload": flipped, "format": fmt.name()}));
                        let v = api::verify(&t, &Resolver::Fixed(Alg::ES256, 0), Some(("aud", "n")), fmt);
                        p.judge("SDJWTVerifier::new(kb)", &v.out, &|| json!({"signed_payload": flipped, "format": fmt.name()}));
                    }
                }
            }
        }
        "signed-structures" if (case / 9) % 64 == 5 => {
            // a layered LATTICE: both disclosures of layer i list both digests of layer i+1 (every
            // digest below the top is referenced twice). 2^layers paths, 2*layers disclosures: must
            // be refused (or processed) at once, never walked path by path
            let layers = *r.pick(&[8usize, 20, 30, 36, 48]);
            let mut next: Option<(String, String)> = None;
            let mut discs: Vec<String> = vec![];
            for layer in (0..layers).rev() {
                let value = |which: &str| match &next {
                    None => json!(format!("leaf-{which}")),
                    Some((a, b)) => json!({"_sd": [a, b]}),
                };
                let da = b64e(json!([format!("sa{layer}"), format!("a{layer}"), value("a")]).to_string().as_bytes());
                let db = b64e(json!([format!("sb{layer}"), format!("b{layer}"), value("b")]).to_string().as_bytes());
                next = Some((model::digest_of(&da), model::digest_of(&db)));
                discs.push(da);
                discs.push(db);
            }
            let (ta, tb) = next.unwrap();
            let payload = json!({"iss": "https://issuer.example/A", "exp": api::now() + 3600, "_sd": [ta, tb], "_sd_alg": "sha-256"});
            let alg = *r.pick(&ALL_ALGS);
            let fmt = *r.pick(&FMTS);
            r.shuffle(&mut discs);
            let parts = Parts { jwt: api::sign_payload(alg, 0, &payload, None), disclosures: discs, kb: None };
            p.l.distinct(crate::rng::mix(fp_base ^ layers as u64 ^ 0x1A77));
            if let Some(t) = parts.encode(fmt, 0) {
                let input = || json!({"lattice_layers": layers, "format": fmt.name()});
                let v = api::verify(&t, &Resolver::Fixed(alg, 0), None, fmt);
                p.judge("SDJWTVerifier::new", &v.out, &input);
                let h = api::holder_new(&t, fmt);
                p.judge("SDJWTHolder::new", &h, &input);
                if let Outcome::Ok(mut h) = h {
                    let o = api::present(&mut h, &json!({"a0": true, "b0": {"a1": true}}), None);
                    p.judge("create_presentation", &o, &input);
                }
            }
        }
        "signed-structures" => {
            let force = c08::DEVIATIONS[(case / 9) as usize % c08::DEVIATIONS.len()];
            let (mut payload, mut discs, applied) = c08::build(&mut r, force, 35);
            match r.below(6) {
                0 => {}
                1 => {
                    payload.as_object_mut().unwrap().remove("iss");
                }
                2 => payload["iss"] = rand_json(&mut r, 1),
                3 if r.chance(50) => payload["iss"] = json!(tamper::boundary_text(&mut r)),
                3 => payload["iss"] = json!(*r.pick(&["https://example.com/100%\u{20ac}", "%a\u{e9}\u{2026}", "%", "%4", "%e9%", "%%%\u{1f600}", "a%\u{e9}", "\u{e9}%41", "https://issuer.example/%41%7E"])),
                _ => payload["iss"] = json!("https://issuer.example/A"),
            }
            match r.below(8) {
                0 => {}
                1 => payload["exp"] = rand_json(&mut r, 1),
                2 => {
                    let big = r.pick(&[json!(u64::MAX), json!(i64::MIN), json!(1.0e308), json!(-1.5), json!(9_007_199_254_740_993u64), json!(4_102_444_800u64)]).clone();
                    payload[*r.pick(&["exp", "nbf", "iat"])] = big;
                    if payload.get("exp").is_none() {
                        payload["exp"] = json!(api::now() + 3600);
                    }
                }
                3 => {
                    // at and around "now" (inside jsonwebtoken's leeway): accepted or refused, never a crash
                    let now = api::now();
                    payload["exp"] = json!(*r.pick(&[now, now - 1, now - 30, now - 59, now - 60, now - 61, now + 1, now + 60]));
                    if r.chance(30) {
                        payload["nbf"] = json!(*r.pick(&[now, now + 1, now + 59, now + 60, now + 61, now - 1]));
                    }
                    if r.chance(30) {
                        payload["iat"] = json!(*r.pick(&[now, now + 1, now + 61, now - 1]));
                    }
                }
                _ => payload["exp"] = json!(api::now() + 3600),
            }
            // disclosures of every JSON shape and arity 0..5
            for _ in 0..r.below(3) {
                let arity = r.usize(6);
                let arr: Vec<Value> = (0..arity).map(|_| rand_json(&mut r, 2)).collect();
                let d = b64e(Value::Array(arr).to_string().as_bytes());
                // reference it from a random container kind
                let dig = model::digest_of(&d);
                if r.chance(50) {
                    let o = payload.as_object_mut().unwrap();
                    let mut sdl = o.get("_sd").and_then(Value::as_array).cloned().unwrap_or_default();
                    sdl.push(json!(dig));
                    o.insert("_sd".into(), Value::Array(sdl));
                } else {
                    payload["arr#c07"] = json!([{"...": dig}, 1]);
                }
                discs.push(d);
            }
            r.shuffle(&mut discs);
            let alg = *r.pick(&ALL_ALGS);
            let fmt = *r.pick(&FMTS);
            // the hash-algorithm marker in every spelling / type
            match r.below(12) {
                0 => payload["_sd_alg"] = json!(*r.pick(&["SHA-256", "Sha-256", "sha-256 ", " sha-256", "sha256", "sha-384", "sha-512", "sha3-256", "md5", "", "sha-256\u{0}"])),
                1 => payload["_sd_alg"] = rand_json(&mut r, 1),
                2 => payload["_sd_alg"] = json!("sha-256"),
                _ => {}
            }
            // a third of the tokens confirm a holder key and carry an honest KB-JWT (SHA-256 over
            // exactly this JWT and these disclosures), verified with aud / nonce: the code behind the
            // key-binding checks then runs on ill-formed signed structures too
            let with_kb = r.chance(33);
            let halg = *r.pick(&[Alg::ES256, Alg::EdDSA]);
            if with_kb {
                payload["cnf"] = json!({"jwk": keys::holder_jwk_json_canonical(halg, 0)});
            }
            let spelling = if r.chance(20) { 1 + r.below(5) } else { 0 };
            // a fifth of the (validly signed) tokens carry protected-header members with multi-byte characters at
            // every small offset, characters whose case mapping changes their length, media-type prefixes / suffixes
            let hdr_text = if r.chance(20) {
                let mut h = json!({"alg": alg.name()});
                for k in ["typ", "kid", "cty", "x"] {
                    if r.chance(50) {
                        h[k] = json!(tamper::boundary_text(&mut r));
                    }
                }
                h.to_string()
            } else {
                json!({"alg": alg.name()}).to_string()
            };
            let jwt = if spelling == 0 && hdr_text.len() < 16 {
                api::sign_payload(alg, 0, &payload, None)
            } else {
                api::sign_text(&hdr_text, &model::respell(&payload, spelling), alg.jwt(), &keys::issuer_enc(alg, 0))
            };
            let kb = if with_kb {
                let mut hashed = jwt.clone();
                for d in &discs {
                    hashed.push('~');
                    hashed.push_str(d);
                }
                hashed.push('~');
                Some(api::sign_kb(halg, 0, &json!({"nonce": "n", "aud": "a", "iat": api::now(), "sd_hash": model::digest_of(&hashed)}), Some("kb+jwt")))
            } else {
                None
            };
            let parts = Parts { jwt, disclosures: discs.clone(), kb };
            p.l.distinct(crate::rng::mix(fp_base ^ gen::shape_fingerprint(&payload) ^ gen::hash_str(&applied.join("+")) ^ (discs.len() as u64) << 50));
            if let Some(t) = parts.encode(fmt, r.next()) {
                let input = || json!({"signed_payload": payload, "disclosures": discs.iter().map(|d| model::b64d(d).ok().and_then(|b| String::from_utf8(b).ok()).unwrap_or_default()).collect::<Vec<_>>(), "format": fmt.name(), "deviations": applied});
                let v = api::verify(&t, &Resolver::Fixed(alg, 0), None, fmt);
                p.judge("SDJWTVerifier::new", &v.out, &input);
                if with_kb {
                    let v = api::verify(&t, &Resolver::Fixed(alg, 0), Some(("a", "n")), fmt);
                    p.judge("SDJWTVerifier::new(kb)", &v.out, &input);
                }
                let h = api::holder_new(&t, fmt);
                p.judge("SDJWTHolder::new", &h, &input);
                if let Outcome::Ok(mut h) = h {
                    let sel = match r.below(4) {
                        0 => gen::select_all(&payload),
                        // `true` for every member and every array element at the top two levels (placeholders
                        // and digest lists included)
                        3 => {
                            fn shallow(v: &Value, depth: u32) -> Value {
                                match v {
                                    Value::Object(m) if depth > 0 => Value::Object(m.iter().map(|(k, c)| (k.clone(), shallow(c, depth - 1))).collect()),
                                    Value::Array(a) if depth > 0 => Value::Array(a.iter().map(|c| shallow(c, depth - 1)).collect()),
                                    _ => Value::Bool(true),
                                }
                            }
                            shallow(&payload, 1 + r.below(2) as u32)
                        }
                        1 => rand_json(&mut r, 3),
                        _ => {
                            // name every member the DISCLOSURES claim to carry (reserved names included),
                            // at the top level and below every top-level member
                            let mut names = serde_json::Map::new();
                            for d in &discs {
                                if let Some(n) = model::b64d(d).ok().and_then(|b| serde_json::from_slice::<Value>(&b).ok()).and_then(|v| v.get(1).and_then(Value::as_str).map(String::from)) {
                                    names.insert(n, if r.chance(70) { json!(true) } else { rand_json(&mut r, 1) });
                                }
                            }
                            let mut top = names.clone();
                            if let Some(o) = payload.as_object() {
                                for (k, v) in o {
                                    if v.is_object() && r.chance(60) {
                                        top.insert(k.clone(), Value::Object(names.clone()));
                                    }
                                }
                            }
                            Value::Object(top)
                        }
                    };
                    let o = api::present(&mut h, &sel, None);
                    p.judge("create_presentation", &o, &|| json!({"holder_input": input(), "selection": sel}));
                }
            }
        }
        "kb-shapes" => {
            // cnf of every shape with KB requested; KB-JWT payloads / headers that are not what is expected
            let jwk_with_params = |r: &mut Rng| -> Value {
                // a plausible JWK decorated with optional registered parameters of every kind
                let mut j = match r.below(4) {
                    0 => keys::holder_jwk_json(Alg::ES256, 0),
                    1 => keys::holder_jwk_json(Alg::EdDSA, 0),
                    2 => json!({"kty": "RSA", "n": "sXchDaQebHnPiGvyDOAT4saGEUetSyo9MKLOoWFsueri23bOdgWp4Dy1WlUzewbgBHod5pcM9H95GQRV3JDXboIRROSBigeC5yjU1hGzHHyXss8UDprecbAYxknTcQkhslANGRUZmdTOQ5qTRsLAt6BTYuyvVRdhS8exSZEy_c4gs_7svlJJQ4H9_NxsiIoLwAEk7-Q3UXERGYw_75IDrGA84-lA_-Ct4eTlXHBIY2EaV7t7LjJaynVJCpkv4LKjTTAumiGUIuQhrNhZLuF_RJLqHpM2kgWFLU7-VTdL1VbC2tejvcI2BlMkEpk1BzBZI0KQB0GaDWFLN-aEAw3vRw", "e": "AQAB"}),
                    _ => json!({"kty": "oct", "k": "c2VjcmV0"}),
                };
                let algs = ["HS256", "HS384", "HS512", "ES256", "ES384", "RS256", "RS384", "RS512", "PS256", "PS384", "PS512", "EdDSA", "RSA1_5", "RSA-OAEP", "RSA-OAEP-256", "none", "A128KW", "dir", ""];
                for _ in 0..r.below(4) {
                    match r.below(7) {
                        0 => j["alg"] = json!(*r.pick(&algs)),
                        1 => j["use"] = json!(*r.pick(&["sig", "enc", "x", ""])),
                        2 => j["key_ops"] = json!([*r.pick(&["sign", "verify", "encrypt", "decrypt", "wrapKey", "unwrapKey", "deriveKey", "deriveBits", "zz"])]),
                        3 => j["kid"] = rand_json(r, 1),
                        4 => j["x5c"] = json!(["AAAA"]),
                        5 => j["x5t"] = json!("AAAA"),
                        _ => j["alg"] = rand_json(r, 1),
                    }
                }
                j
            };
            let cnf = match r.below(10) {
                8 | 9 => json!({"jwk": jwk_with_params(&mut r)}),
                0 => rand_json(&mut r, 2),
                1 => json!({"jwk": rand_json(&mut r, 2)}),
                2 => {
                    let n = *r.pick(&[0usize, 1, 2, 31, 32, 33, 64, 65]);
                    let c = b64e(&vec![0u8; n]);
                    json!({"jwk": {"kty": "EC", "crv": *r.pick(&["P-256", "P-384", "P-521", "secp256k1", ""]), "x": c, "y": if r.chance(50) { c.clone() } else { "AA".to_string() }}})
                }
                3 if r.chance(60) => {
                    // Ed25519 / X25519 keys whose x is valid base64url of the wrong length (or all zero)
                    let n = *r.pick(&[0usize, 1, 3, 16, 31, 32, 33, 64]);
                    let x = match r.below(3) { 0 => b64e(&vec![0u8; n]), 1 => b64e(&vec![0xFFu8; n]), _ => "AAAA".to_string() };
                    json!({"jwk": {"kty": "OKP", "crv": *r.pick(&["Ed25519", "X25519", "Ed448", "ed25519"]), "x": x}})
                }
                3 => json!({"jwk": {"kty": "OKP", "crv": "Ed25519", "x": rand_json(&mut r, 1)}}),
                4 => json!({"jwk": {"kty": "RSA", "n": "AQAB", "e": "AQAB"}}),
                5 => json!({"jwk": {"kty": "oct", "k": "c2VjcmV0"}}),
                6 => json!({"kid": "x"}),
                _ => json!({"jwk": keys::holder_jwk_json(Alg::ES256, 0)}),
            };
            let payload = json!({"iss": "https://issuer.example/A", "exp": api::now() + 3600, "cnf": cnf, "a": 1});
            let jwt = api::sign_payload(Alg::ES256, 0, &payload, None);
            let kb_payload = match r.below(6) {
                0 => rand_json(&mut r, 2),
                1 => json!([1, 2]),
                2 => json!("str"),
                3 => json!({"aud": rand_json(&mut r, 1), "nonce": rand_json(&mut r, 1), "sd_hash": rand_json(&mut r, 1)}),
                _ => json!({"aud": "aud", "nonce": "n", "iat": 1, "sd_hash": model::digest_of(&format!("{jwt}~"))}),
            };
            let kb = match r.below(5) {
                0 => api::sign_kb(Alg::ES256, 0, &kb_payload, Some("kb+jwt")),
                1 => api::sign_kb(Alg::EdDSA, 0, &kb_payload, None),
                2 => format!("{}.{}.", b64e(rand_json(&mut r, 2).to_string().as_bytes()), b64e(kb_payload.to_string().as_bytes())),
                3 => format!("{}.{}.AAAA", b64e(json!({"alg": rand_json(&mut r, 1), "typ": rand_json(&mut r, 1)}).to_string().as_bytes()), b64e(kb_payload.to_string().as_bytes())),
                _ => api::sign_raw(&json!({"alg": "HS256", "typ": "kb+jwt"}), &kb_payload, jsonwebtoken::Algorithm::HS256, &jsonwebtoken::EncodingKey::from_secret(b"k")),
            };
            let fmt = *r.pick(&FMTS);
            // systematically: an otherwise fully valid KB-JWT (right key, typ, aud, nonce, sd_hash)
            // with exactly one member removed or replaced by another JSON type
            if (case / 9) % 6 == 0 {
                let good_payload = json!({"iss": "https://issuer.example/A", "exp": api::now() + 3600, "cnf": {"jwk": keys::holder_jwk_json(Alg::ES256, 0)}, "a": 1});
                let gjwt = api::sign_payload(Alg::ES256, 0, &good_payload, None);
                let full = json!({"aud": "aud", "nonce": "n", "iat": api::now(), "sd_hash": model::digest_of(&format!("{gjwt}~"))});
                for member in ["aud", "nonce", "iat", "sd_hash", "exp", "nbf"] {
                    for repl in [None, Some(json!(null)), Some(json!(5)), Some(json!(["x"])), Some(json!({"a": 1})), Some(json!(u64::MAX)), Some(json!(i64::MAX)), Some(json!(i64::MIN)), Some(json!(-1)), Some(json!(1.0e308)), Some(json!(9_007_199_254_740_993u64)), Some(json!(0)), Some(json!("")), Some(json!(1)), Some(json!(29)), Some(json!(30)), Some(json!(59)), Some(json!(61)),
                        // strings with as many CHARACTERS as a digest (43) but more bytes, and other non-ASCII
                        Some(json!(format!("{}\u{e9}", "A".repeat(42)))), Some(json!("\u{1f600}".repeat(43))), Some(json!(format!("\u{e9}{}", "A".repeat(42)))), Some(json!("\u{0}".repeat(43))), Some(json!("A".repeat(44))), Some(json!("A".repeat(42)))] {
                        let mut pl = full.clone();
                        match &repl {
                            None => {
                                pl.as_object_mut().map(|o| o.remove(member));
                            }
                            Some(v) => pl[member] = v.clone(),
                        }
                        let kbj = api::sign_kb(Alg::ES256, 0, &pl, Some("kb+jwt"));
                        let parts = Parts { jwt: gjwt.clone(), disclosures: vec![], kb: Some(kbj) };
                        if let Some(t) = parts.encode(fmt, 0) {
                            let v = api::verify(&t, &Resolver::Fixed(Alg::ES256, 0), Some(("aud", "n")), fmt);
                            p.judge("SDJWTVerifier::new(kb)", &v.out, &|| json!({"kb_payload": pl, "format": fmt.name(), "note": "valid KB-JWT with one member removed / retyped"}));
                        }
                    }
                }
            }
            // systematically: an otherwise fully valid KB-JWT whose header typ is any short / long /
            // non-ASCII string (byte offsets 11..13 falling inside a multi-byte character)
            if (case / 9) % 3 == 1 {
                let good_payload = json!({"iss": "https://issuer.example/A", "exp": api::now() + 3600, "cnf": {"jwk": keys::holder_jwk_json(Alg::ES256, 0)}, "a": 1});
                let gjwt = api::sign_payload(Alg::ES256, 0, &good_payload, None);
                let full = json!({"aud": "aud", "nonce": "n", "iat": api::now(), "sd_hash": model::digest_of(&format!("{gjwt}~"))});
                for typ in ["application\u{e9}kb+jwt", "applicatio\u{e9}/kb+jwt", "applicati\u{1f600}kb+jwt", "application/\u{e9}", "APPLICATION/KB+JWT", "application/", "application/kb+jwt", "\u{e9}", "kb+jw\u{e9}", "kb+jwt\u{0}", "kb\u{1f600}", "", "applicationkb+jwt\u{e9}\u{e9}\u{e9}", "kb+jwt kb+jwt"] {
                    let hdr = json!({"alg": "ES256", "typ": typ});
                    let kbj = api::sign_raw(&hdr, &full, jsonwebtoken::Algorithm::ES256, &keys::holder_enc(Alg::ES256, 0));
                    let parts = Parts { jwt: gjwt.clone(), disclosures: vec![], kb: Some(kbj) };
                    if let Some(t) = parts.encode(fmt, 0) {
                        let v = api::verify(&t, &Resolver::Fixed(Alg::ES256, 0), Some(("aud", "n")), fmt);
                        p.judge("SDJWTVerifier::new(kb)", &v.out, &|| json!({"kb_header": hdr, "format": fmt.name(), "note": "valid KB-JWT, only typ unusual"}));
                    }
                }
            }
            let parts = Parts { jwt, disclosures: vec![], kb: Some(kb) };
            p.l.distinct(crate::rng::mix(fp_base ^ gen::shape_fingerprint(&cnf) ^ gen::shape_fingerprint(&kb_payload).rotate_left(20)));
            if let Some(t) = parts.encode(fmt, 0) {
                let v = api::verify(&t, &Resolver::Fixed(Alg::ES256, 0), Some(("aud", "n")), fmt);
                p.judge("SDJWTVerifier::new(kb)", &v.out, &|| json!({"cnf": cnf, "kb_payload": kb_payload, "format": fmt.name(), "presentation": t}));
            }
        }
        "holder-selections" => {
            // arbitrary selection JSON on generated credentials and on narrowed presentations
            let cfg = pipeline::Config::from_index(case / 9);
            let s = pipeline::gen_scenario(ctx, &mut r, cfg.clone());
            let mut issuer = api::new_issuer(cfg.alg, 0, true);
            if let Outcome::Ok(sdj) = api::issue(&mut issuer, &s.u, &s.strat, cfg.holder, cfg.decoys, cfg.fmt) {
                let mut current = sdj;
                for round in 0..3 {
                    let sel = match r.below(4) {
                        0 => rand_json(&mut r, 3),
                        _ => gen::gen_arbitrary_selection(&mut r, &s.u, 3),
                    };
                    p.l.distinct(crate::rng::mix(fp_base ^ gen::shape_fingerprint(&sel) ^ gen::shape_fingerprint(&s.u).rotate_left(13) ^ round));
                    let h = api::holder_new(&current, cfg.fmt);
                    p.judge("SDJWTHolder::new", &h, &|| json!({"text": current}));
                    if let Outcome::Ok(mut h) = h {
                        let o = api::present(&mut h, &sel, None);
                        p.judge("create_presentation", &o, &|| json!({"claims": s.u, "strategy": s.strat.describe(), "holder_input_is_narrowed": round > 0, "selection": sel, "holder_input": current}));
                        // key-binding arguments of every kind: unknown / mismatching algorithm names,
                        // keys of another family, only some of nonce / aud / key given
                        if round == 0 {
                            let alg_s = (*r.pick(&["", "none", "NOPE256", "HS256", "ES384", "RS256", "EdDSA", "ES256", "es256"])).to_string();
                            let key = match r.below(3) {
                                0 => None,
                                1 => Some((Alg::ES256, 0)),
                                _ => Some((Alg::EdDSA, 0)),
                            };
                            let nonce = if r.chance(80) { Some("n\u{0}~.".to_string()) } else { None };
                            let aud = if r.chance(80) { Some(String::new()) } else { None };
                            let sa = if r.chance(85) { Some(alg_s.clone()) } else { None };
                            let o = api::present_raw(&mut h, &json!({}), nonce, aud, key, sa);
                            p.judge("create_presentation(kb args)", &o, &|| json!({"sign_alg": alg_s, "key": format!("{key:?}")}));
                        }
                        // narrow: next round's holder is built from a partial presentation
                        let narrow = gen::gen_selection(&mut r, &s.u, gen::SelKind::RandomSparse);
                        let after = api::present(&mut h, &narrow, None);
                        p.judge("create_presentation(after a refused call)", &after, &|| json!({"claims": s.u, "selection": narrow, "history": api::history()}));
                        if let Outcome::Ok(np) = after {
                            current = np;
                        }
                    }
                }
            }
        }
        _ => {
            // issuer inputs
            let mut issuer = api::new_issuer(*r.pick(&ALL_ALGS), 0, r.chance(50));
            let claims = match r.below(8) {
                0 => rand_json(&mut r, 4),
                1 => {
                    // nesting up to 64
                    let depth = 1 + r.below(64);
                    // (sometimes with a reserved member at the very bottom: refused, and refused quickly)
                    let mut v = if r.chance(35) { json!({*r.pick(&["_sd", "..."]): ["x"]}) } else { json!("leaf") };
                    for i in 0..depth {
                        v = if r.chance(50) { json!({ format!("k{i}"): v }) } else { json!([v]) };
                    }
                    json!({"iss": "i", "exp": 4_000_000_000u64, "deep": v})
                }
                2 => {
                    // any Unicode scalar value in names and strings
                    let mut m = Map::new();
                    for _ in 0..1 + r.below(5) {
                        let mk = |r: &mut Rng| -> String {
                            (0..r.below(6))
                                .map(|_| loop {
                                    let c = match r.below(4) {
                                        0 => r.below(0x80) as u32,
                                        1 => r.below(0x10000) as u32,
                                        2 => 0x10000 + r.below(0x100000) as u32,
                                        _ => *r.pick(&[0xD7FFu32, 0xE000, 0xFFFF, 0x10000, 0x10FFFF, 0xFFFE, 0x7F, 0x80, 0x7FF, 0x800]),
                                    };
                                    if let Some(ch) = char::from_u32(c) {
                                        break ch;
                                    }
                                })
                                .collect()
                        };
                        let k = mk(&mut r);
                        let v = mk(&mut r);
                        m.insert(k, json!(v));
                    }
                    m.insert("iss".into(), json!("i"));
                    m.insert("exp".into(), json!(4_000_000_000u64));
                    Value::Object(m)
                }
                3 if r.chance(70) => {
                    // root iat / exp / nbf of every numeric kind and magnitude (and non-numbers)
                    let nums = [json!(-1.5), json!(1e20), json!(1.0e308), json!(-1.0e308), json!(5e-324), json!(-0.0), json!(u64::MAX), json!(i64::MIN), json!(1.8446744073709552e19), json!(1683000000.5), json!(-1), json!("1683000000"), json!(null), json!([1]), json!(true)];
                    let mut c = json!({"iss": "i", "exp": 4_000_000_000u64, "a": {"iat": -1.5, "exp": 1e20}});
                    for k in ["iat", "exp", "nbf"] {
                        if r.chance(60) {
                            c[k] = r.pick(&nums).clone();
                        }
                    }
                    c
                }
                3 => json!([1, 2, 3]),
                4 => json!("string"),
                5 => Value::Null,
                _ => {
                    let g = GenCfg::new(*r.pick(&PROFILES), 20, api::now());
                    gen::gen_claims(&mut r, &g)
                }
            };
            let path_pool = ["$.", "$..", "$.[", "$.a[", "$.a.b", "$", "", "a", "$.é", "$.a[0][1]", "$.o.k[1].z", "$.[0]", "$.a]", "$.a[]", "$.a[-1]", "$.a[99999999999999999999]", "$.😀", "$.\u{0}", "$.deep.k0", "$.deep[0]", "$.iss", "$.exp", "$.a.", "$.a..b", "$.a[0", "$. ", "$.$.", "$.*", "$..*", "$.a[*]", "$.a['b']"];
            let mut own: Vec<String> = vec![];
            {
                // systematic: every string of length 1..=5 over the JSONPath metacharacter alphabet
                // (19 607 strings), one per case, as a Custom path
                const A: [char; 7] = ['$', '.', '[', ']', '\'', 'a', '0'];
                let mut idx = (case / 9) % 19_607;
                let mut len = 1;
                let mut block = 7u64;
                while idx >= block {
                    idx -= block;
                    len += 1;
                    block *= 7;
                }
                let mut sp = String::new();
                for _ in 0..len {
                    sp.push(A[(idx % 7) as usize]);
                    idx /= 7;
                }
                own.push(sp);
            }
            for _ in 0..r.below(5) {
                own.push(match r.below(4) {
                    0 => {
                        let n = r.usize(1024);
                        format!("$.{}", "a".repeat(n))
                    }
                    1 => {
                        // multi-byte prefixes
                        format!("{}a", *r.pick(&["＄.", "$。", "é$.", "$\u{feff}."]))
                    }
                    2 => (0..r.below(12)).map(|_| *r.pick(&['$', '.', '[', ']', 'a', '0', '1', ' ', 'é'])).collect(),
                    _ => (*r.pick(&path_pool)).to_string(),
                });
            }
            // paths derived from the claims' own member names: truncated / extended by multi-byte
            // characters, so that byte offsets of one name fall inside a character of the path
            if let Some(o) = claims.as_object() {
                let keys: Vec<&String> = o.keys().collect();
                if !keys.is_empty() {
                    let k = (*r.pick(&keys)).clone();
                    let cut = |s: &str, n: usize| -> String { s.chars().take(n).collect() };
                    let n = k.chars().count();
                    for mb in ["é", "€", "😀"] {
                        own.push(format!("$.{}{mb}.x", cut(&k, n.saturating_sub(1))));
                        own.push(format!("$.{k}{mb}"));
                        own.push(format!("$.{}{mb}{}", cut(&k, n / 2), cut(&k, n)));
                        own.push(format!("$.{mb}{k}"));
                    }
                    for idx in ["18446744073709551615", "18446744073709551616", "99999999999999999999999999", "4294967296", "-1", "+1", "0x10", "1e3", "01", " 1", ""] {
                        own.push(format!("$.{k}[{idx}]"));
                        own.push(format!("$.{k}.[{idx}].x"));
                    }
                    own.push(format!("$.{k}[0]{}", "é"));
                    own.push(format!("$.{k}.é[1]"));
                }
            }
            let paths: Vec<&str> = own.iter().map(|s| s.as_str()).collect();
            use sd_jwt_rs::ClaimsForSelectiveDisclosureStrategy as S;
            // the enumerated path only matters under Custom: force it for 3 of 4 cases
            let skind = if r.chance(75) { StratKind::Custom40 } else { *r.pick(&STRAT_KINDS) };
            let strat = match skind {
                StratKind::NoSD => S::NoSDClaims,
                StratKind::TopLevel => S::TopLevel,
                StratKind::AllLevels => S::AllLevels,
                _ => S::Custom(paths),
            };
            let holder = match r.below(3) {
                0 => None,
                1 => Some((Alg::ES256, 0)),
                _ => Some((Alg::EdDSA, 1)),
            };
            let fmt = *r.pick(&FMTS);
            p.l.distinct(crate::rng::mix(fp_base ^ gen::shape_fingerprint(&claims) ^ ((skind as u64) << 50) ^ gen::hash_str(&own.join("|"))));
            let o = api::issue_raw(&mut issuer, &claims, strat, holder, r.chance(50), fmt);
            p.judge("issue_sd_jwt", &o, &|| json!({"claims": claims, "strategy": skind.name(), "paths": own, "format": fmt.name()}));
            // unknown signing algorithm names
            if r.chance(10) {
                let mut bad = sd_jwt_rs::SDJWTIssuer::new(keys::issuer_enc(Alg::ES256, 0), Some((*r.pick(&["", "none", "ES999", "HS256", "EdDSA"])).to_string()));
                let o = api::issue_raw(&mut bad, &json!({"iss": "i", "exp": 4_000_000_000u64, "a": 1}), S::AllLevels, None, false, fmt);
                p.judge("issue_sd_jwt(bad alg)", &o, &|| json!("issuer constructed with an algorithm name that does not match its key"));
            }
        }
    }
    let _ = Profile::Flat;
    if case < 9 {
        p.l.sample(case, || json!({"class": class, "note": "see rule; inputs are generated per class"}));
    }
}

// ------------------------------------------------------------------------------------------
// Miri leg: only the part of the API that does not cross FFI (ring): holder constructor and
// create_presentation without key binding. Seeds are produced natively by the parent.

/// `sdjwt-mon C07-miri <seed> <shard> <nshards> <cases> <seeds.json> <partial.json>`
pub fn miri_main(args: &[String]) {
    let seed: u64 = args[2].parse().unwrap_or(1);
    let shard: u64 = args[3].parse().unwrap_or(0);
    let nshards: u64 = args[4].parse().unwrap_or(1);
    let cases: u64 = args[5].parse().unwrap_or(1);
    let seeds_text = std::fs::read_to_string(&args[6]).expect("seeds file");
    let seeds: Vec<(String, Fmt)> = serde_json::from_str::<Value>(&seeds_text)
        .ok()
        .and_then(|v| v.as_array().cloned())
        .unwrap_or_default()
        .into_iter()
        .map(|e| (e[0].as_str().unwrap_or("").to_string(), if e[1] == "JSON" { Fmt::Json } else { Fmt::Compact }))
        .collect();
    let mut l = Local::default();
    let alphabet: Vec<char> = MUT_ALPHABET.chars().collect();
    // ---- deterministic corpus first: every (reference kind x decoded disclosure shape x selector
    // kind) combination that reaches an indexing site of the holder; 96 inputs
    let shapes: Vec<Value> = vec![json!([]), json!(["s"]), json!(["s", "k"]), json!(["s", "k", "v"]), json!(["s", "k", "v", "w"]), json!("str"), json!({"a": 1}), json!(null)];
    let selectors: Vec<Value> = vec![json!(true), json!({"x": true}), json!([true]), json!(false), json!(null), json!({"...": true})];
    let mut idx = 0u64;
    for (ki, kind) in ["_sd", "..."].iter().enumerate() {
        for shape in &shapes {
            for selv in &selectors {
                idx += 1;
                if idx % nshards != shard {
                    continue;
                }
                api::begin_case();
                let d = b64e(shape.to_string().as_bytes());
                let dig = model::digest_of(&d);
                let (payload, sel) = if *kind == "_sd" {
                    (json!({"iss": "i", "o": {"_sd": [dig], "vis": 1}, "_sd": [dig.replace('A', "B")]}), json!({"o": {"k": selv, "vis": true}, "k": selv}))
                } else {
                    (json!({"iss": "i", "arr": [{"...": dig}, 1, [{"...": dig.replace('A', "B")}]]}), json!({"arr": [selv, true, [selv]]}))
                };
                let jwt = format!("{}.{}.AAAA", b64e(b"{\"alg\":\"ES256\"}"), b64e(payload.to_string().as_bytes()));
                let fmt = if (idx + ki as u64) % 2 == 0 { Fmt::Compact } else { Fmt::Json };
                let text = Parts { jwt, disclosures: vec![d], kb: None }.encode(fmt, 0).unwrap_or_default();
                l.count("class.corpus");
                let mut p = Probe { case: 1_000_000 + idx, class: "corpus", l: &mut l };
                let input = || json!({"format": fmt.name(), "payload": payload, "disclosure": shape, "selection": sel});
                let h = api::holder_new(&text, fmt);
                p.judge("SDJWTHolder::new", &h, &input);
                if let Outcome::Ok(mut h) = h {
                    let o = api::present(&mut h, &sel, None);
                    p.judge("create_presentation", &o, &input);
                    p.l.distinct(crate::rng::mix(idx ^ 0xC0A905));
                }
            }
        }
    }
    for case in 0..cases {
        if case % nshards != shard {
            continue;
        }
        api::begin_case();
        let mut r = Rng::for_case(seed, STREAM + 1000, case);
        let (tok, fmt) = r.pick(&seeds).clone();
        let mut crafted_sel: Option<Value> = None;
        let class = ["random-bytes", "char-mutated", "part-mutated", "holder-selections", "crafted-structures"][(case % 5) as usize];
        l.count(&format!("class.{class}"));
        let text: String = match class {
            "random-bytes" => (0..r.usize(120)).map(|_| *r.pick(&alphabet)).collect(),
            "char-mutated" => {
                let mut chars: Vec<char> = tok.chars().collect();
                for _ in 0..1 + r.below(3) {
                    if chars.is_empty() {
                        break;
                    }
                    let pos = r.usize(chars.len());
                    match r.below(3) {
                        0 => chars[pos] = *r.pick(&alphabet),
                        1 => {
                            chars.remove(pos);
                        }
                        _ => chars.insert(pos, *r.pick(&alphabet)),
                    }
                }
                chars.into_iter().collect()
            }
            "part-mutated" => {
                let mut parts: Vec<String> = tok.split('~').map(String::from).collect();
                if parts.len() > 2 {
                    let i = 1 + r.usize(parts.len() - 2);
                    match r.below(3) {
                        0 => {
                            parts.remove(i);
                        }
                        1 => parts[i] = b64e(rand_json(&mut r, 2).to_string().as_bytes()),
                        _ => {
                            let x = parts[i].clone();
                            parts.insert(i, x);
                        }
                    }
                }
                parts.join("~")
            }
            "crafted-structures" => {
                // ill-formed payload / disclosure structures from the C08 builder, unsigned (the
                // holder does not verify): short and long disclosures, wrong container kinds, ...
                // under the interpreter every case is expensive: concentrate on the deviations
                // that change what the holder indexes (arity / shape of referenced disclosures)
                let focus = ["elem-arity", "member-arity", "elem-nonarray", "member-nonarray", "name-nonstring", "compose", "placeholder-nonstring", "sd-nonstring-entry"];
                let force = focus[(case / 5) as usize % focus.len()];
                let (mut payload, discs, _) = c08::build(&mut r, force, 30);
                payload["iss"] = json!("i");
                let jwt = format!("{}.{}.AAAA", b64e(b"{\"alg\":\"ES256\"}"), b64e(payload.to_string().as_bytes()));
                crafted_sel = Some(if r.chance(50) { gen::select_all(&payload) } else { rand_json(&mut r, 3) });
                Parts { jwt, disclosures: discs, kb: None }.encode(fmt, 0).unwrap_or_default()
            }
            _ => tok.clone(),
        };
        let sel = if let Some(cs) = crafted_sel.take() {
            cs
        } else if class == "holder-selections" {
            match r.below(3) {
                0 => rand_json(&mut r, 3),
                1 => json!({"a": [true], "o": {"k": [false, {"z": {"q": true}}], "zz": {"y": 1}}, "arr": [[true, true, true], true, [1]], "nope": [true]}),
                _ => json!({"a": true, "o": {"k": [true, {"z": true}]}, "arr": [[true, false], [true]]}),
            }
        } else {
            json!({"a": true, "o": {"k": [true, {"z": true}]}, "arr": [[false, true], [true]], "u": true})
        };
        let mut p = Probe { case, class, l: &mut l };
        let input = || json!({"format": fmt.name(), "text": text, "selection": sel});
        let h = api::holder_new(&text, fmt);
        p.judge("SDJWTHolder::new", &h, &input);
        if let Outcome::Ok(mut h) = h {
            let o = api::present(&mut h, &sel, None);
            p.judge("create_presentation", &o, &input);
            p.l.distinct(crate::rng::mix(gen::hash_str(class) ^ gen::hash_str(&text) ^ gen::shape_fingerprint(&sel)));
            // a holder built from the (possibly narrowed) result
            if let Outcome::Ok(pres) = o {
                if let Outcome::Ok(mut h2) = api::holder_new(&pres, fmt) {
                    let o2 = api::present(&mut h2, &json!({"arr": [[true, false, true], [false]], "o": {"k": [true, {"z": true}]}}), None);
                    p.judge("create_presentation(narrowed)", &o2, &input);
                }
            }
        }
    }
    for (k, v) in api::take_counts() {
        l.add(&k, v);
    }
    std::fs::write(&args[7], l.to_json().to_string()).expect("write partial");
}

/// Native helper for the Miri leg: valid tokens (both formats, decoys on/off) as a JSON file.
pub fn write_miri_seeds(path: &str) -> bool {
    let s = make_seeds(&mut Rng(7));
    let v: Vec<Value> = s.tokens.iter().filter(|(_, _, kb)| !kb).take(6).map(|(t, f, _)| json!([t, f.name()])).collect();
    !v.is_empty() && std::fs::write(path, Value::Array(v).to_string()).is_ok()
}
