//! C12 — decoy digests are present when asked, inert, and indistinguishable.

use crate::api::{self, Outcome, Resolver};
use crate::evidence::{run_cases, Ctx, Local, Report, Violation};
use crate::gen::{self, path_str, Profile, SelKind};
use crate::keys::{self, Alg};
use crate::model;
use crate::mon::c06::check_presentation;
use crate::pipeline::{self, Config, Issued};
use crate::rng::Rng;
use serde_json::{json, Value};

const STREAM: u64 = 12;

pub fn run(ctx: &Ctx) -> Report {
    let n = ctx.cases(10_000, 600_000);
    let mut local = run_cases(ctx, n, |case, l| one_case(ctx, case, l));
    // order clause, judged over the whole run
    let counters = local.counters.clone();
    let g = |k: &str| counters.get(k).copied().unwrap_or(0);
    let mut inconclusive = vec![];
    for pop in ["all", "decoys-on", "decoys-off", "in-payload", "in-disclosed-value", "decoys-on.in-payload", "decoys-on.in-disclosed-value", "decoys-off.in-payload", "decoys-off.in-disclosed-value",
        "decoys-off.reals=2", "decoys-off.reals=3", "decoys-off.reals=4", "decoys-on.reals=2", "decoys-on.reals=3", "decoys-off.partly-visible-object", "decoys-on.partly-visible-object",
        "decoys-off.hidden-values-all-structured", "decoys-on.hidden-values-all-structured", "decoys-off.hidden-values-all-scalar", "decoys-on.hidden-values-all-scalar"] {
        let lists = g(&format!("order.{pop}.lists>=2real"));
        let inorder = g(&format!("order.{pop}.in-member-order"));
        if lists < 200 {
            // the three main populations must be large enough; sub-populations by location are
            // judged only when they happen to contain >= 200 lists
            if ctx.only_case.is_none() && !pop.contains("in-") && !pop.contains("reals=") && !pop.contains("partly") && !pop.contains("hidden-values") {
                inconclusive.push(format!("order clause: only {lists} qualifying _sd lists in population {pop} (< 200)"));
            }
        } else if inorder == lists {
            local.violate(Violation {
                subcheck: "order-leak-member-order".into(),
                class: pop.into(),
                observed: "every _sd list shows its real digests in the original member order".into(),
                case: 0,
                detail: json!({"lists": lists, "in_member_order": inorder}),
            });
        }
    }
    for pop in ["all", "decoys-on", "decoys-off"] {
        let lists = g(&format!("order.{pop}.lists>=3real-not-in-member-order"));
        let byname = g(&format!("order.{pop}.in-name-order"));
        if lists >= 200 && byname == lists {
            local.violate(Violation {
                subcheck: "order-leak-name-order".into(),
                class: pop.into(),
                observed: "every _sd list shows its real digests in the alphabetical order of the hidden members' names".into(),
                case: 0,
                detail: json!({"lists": lists, "in_name_order": byname}),
            });
        }
    }
    for pop in ["decoys-on", "decoys-on.in-payload", "decoys-on.in-disclosed-value", "decoys-on.partly-visible-object"] {
        let wd = g(&format!("order.{pop}.lists-with-decoy"));
        let dl = g(&format!("order.{pop}.all-decoys-last"));
        if wd >= 200 && dl == wd {
            local.violate(Violation {
                subcheck: "order-leak-decoys-last".into(),
                class: pop.into(),
                observed: "every _sd list shows all decoys after all real digests".into(),
                case: 0,
                detail: json!({"lists_with_decoy": wd, "all_decoys_last": dl}),
            });
        }
    }
    let mut rep = Report::new(
        "exploration",
        "case i: one claim set (profiles wide / objects-in-arrays over-weighted) issued 4..16 times alternating decoys on/off; each \
         credential is located (every object of payload and disclosed values must / must not carry an unmatched digest, every digest \
         43 base64url chars = 32 bytes, unique), presented with a random selection and verified against the decoy-ignoring model; \
         decoy-on and decoy-off twins must verify to the same claims. Order clause judged over all _sd lists with >=2 real digests. \
         evaluations = issuances. Distinct = (claims shape, strategy positions, decoy flag, number of objects); non-trivial = \
         credential has >=1 object besides the root or >=1 SD path.",
        local,
    );
    rep.inconclusive = inconclusive;
    rep.floor("objects.decoys-on", 1000);
    rep.floor("objects.decoys-on.with-decoy", 1000);
    rep.floor("objects.decoys-off", 1000);
    rep.floor("verified.equal-to-model", 500);
    rep.floor("twin.same-claims", 100);
    rep
}

fn one_case(ctx: &Ctx, case: u64, l: &mut Local) {
    let mut r = Rng::for_case(ctx.seed, STREAM, case);
    let mut cfg = Config::from_index(case);
    if r.chance(50) {
        cfg.profile = *r.pick(&[Profile::Wide, Profile::ObjectsInArrays, Profile::DeepObjects]);
    }
    let mut s = pipeline::gen_scenario(ctx, &mut r, cfg.clone());
    if case % 40 == 7 {
        // boundary sizes: a credential with 40..160 small objects (2..4 decoys each, i.e. more
        // than 128 / 256 decoy digests in one credential) and objects with exactly 8 / 16 members
        let n = 40 + r.below(121);
        let items: Vec<Value> = (0..n).map(|i| json!({ format!("k#{i};"): i })).collect();
        let mut wide8 = serde_json::Map::new();
        for i in 0..(8 * (1 + r.below(3))) {
            wide8.insert(format!("w#9{i};"), json!(i));
        }
        s.u["many-objects#0;"] = Value::Array(items);
        // one large hidden value early in the claims (decoys must not depend on what was disclosed before)
        s.u["portrait#000;"] = json!("P".repeat(*r.pick(&[6_200usize, 8_192, 9_000, 20_000])));
        s.u["exactly-8n-members#00;"] = Value::Object(wide8);
        s.strat = gen::gen_strategy(&mut r, &s.u, cfg.strat);
        l.count("boundary.many-objects-credentials");
    }
    if case % 40 == 9 && !cfg.strat.is_custom() {
        // member names that read like paths of other members: distinct objects all the same
        s.u["a.b"] = json!({"x#1a;": 1});
        s.u["a"] = json!({"b": {"x#1b;": 1}, "c[0]": {"y#1c;": 2}, "c": [{"y#1d;": 2}]});
        s.u["list[0]"] = json!({"y#1e;": 1});
        s.u["list"] = json!([{"y#1f;": 1}, {}]);
        s.u["status"] = json!({"status_list": {"idx": 7, "uri": "https://s.example/1"}});
        s.u["vct"] = json!({"n#1g;": {}});
        s.strat = gen::gen_strategy(&mut r, &s.u, cfg.strat);
        l.count("boundary.path-like-names-credentials");
    }
    let class = cfg.profile.name();
    let reps = if case % 40 == 7 { 2 } else { 4 + r.below(13) };
    let jwk = cfg.holder.map(|(a, i)| keys::holder_jwk_json_canonical(a, i));
    let base_input = || json!({"config": cfg.describe(), "claims": s.u, "strategy": s.strat.describe()});
    l.sample(case, base_input);
    let mut issuer = api::new_issuer(cfg.alg, 0, s.explicit_alg);
    let sel = pipeline::random_selection(&mut r, &s.u);
    let (expected, d) = model::view(&s.u, &sel, &s.strat.sd);
    let expected = model::with_cnf(expected, jwk.as_ref());
    let mut twin: [Option<Value>; 2] = [None, None];
    let all_sel = gen::gen_selection(&mut r, &s.u, SelKind::Everything);
    for k in 0..reps {
        let decoys = k % 2 == 0;
        l.evals += 1;
        if !decoys && r.chance(25) {
            // between a decoy-on and a decoy-off issuance the same instance is asked for something it
            // must refuse WITH decoys on (claims that are not an object / a reserved name / a bad path):
            // the refusal leaves nothing behind
            let _ = match r.below(3) {
                0 => api::issue_raw(&mut issuer, &json!([1, 2]), sd_jwt_rs::ClaimsForSelectiveDisclosureStrategy::AllLevels, cfg.holder, true, cfg.fmt),
                1 => api::issue_raw(&mut issuer, &json!({"iss": "i", "exp": 4000000000u64, "o": {"_sd": 1}}), sd_jwt_rs::ClaimsForSelectiveDisclosureStrategy::TopLevel, cfg.holder, true, cfg.fmt),
                _ => api::issue_raw(&mut issuer, &json!("text"), sd_jwt_rs::ClaimsForSelectiveDisclosureStrategy::NoSDClaims, cfg.holder, true, cfg.fmt),
            };
            l.count("refused-decoy-on-call-before-decoy-off");
        }
        let tagk = if decoys { "decoys-on" } else { "decoys-off" };
        let issued: Issued = match pipeline::issue_with(&mut issuer, &s.u, &s.strat, cfg.holder, decoys, cfg.fmt) {
            Ok(i) => i,
            Err(f) => {
                l.violate(Violation {
                    subcheck: "issue".into(),
                    class: class.into(),
                    observed: format!("{f:?}").chars().take(200).collect(),
                    case,
                    detail: json!({"input": base_input(), "decoys": decoys, "history": api::history()}),
                });
                return;
            }
        };
        l.add(&format!("objects.{tagk}"), issued.loc.objects);
        l.add(&format!("objects.{tagk}.with-decoy"), issued.loc.objects_with_decoy);
        l.add(&format!("unmatched-digests.{tagk}"), issued.loc.unmatched.len() as u64);
        if issued.loc.objects > 1 || !s.strat.sd.is_empty() {
            l.distinct(crate::rng::mix(
                gen::shape_fingerprint(&s.u) ^ (s.strat.sd.len() as u64).rotate_left(20) ^ cfg.bits() ^ ((decoys as u64) << 40) ^ (issued.loc.objects << 44),
            ));
        }
        for c in &issued.loc.complaints {
            l.violate(Violation {
                subcheck: c.kind.into(),
                class: tagk.into(),
                observed: format!("structural complaint: {}", c.kind),
                case,
                detail: json!({"input": base_input(), "decoys": decoys, "at": c.at, "complaint": c.detail, "payload": issued.payload}),
            });
        }
        if !issued.loc.complaints.is_empty() {
            continue;
        }
        // order statistic
        for list in &issued.loc.sd_lists {
            let reals: Vec<usize> = list.entries.iter().filter_map(|e| *e).collect();
            if reals.len() < 2 {
                continue;
            }
            let in_order = reals.windows(2).all(|w| w[0] < w[1]);
            let loc = if list.in_disclosure { "in-disclosed-value" } else { "in-payload" };
            // (also by the exact number of real digests — a two-entry list has only two orders — and for
            // objects that keep visible members next to the hidden ones)
            let mut pops = vec!["all".to_string(), tagk.to_string(), loc.to_string(), format!("{tagk}.{loc}"), format!("{tagk}.reals={}", reals.len().min(5))];
            if list.has_visible {
                pops.push(format!("{tagk}.partly-visible-object"));
            }
            // (and by what the hidden members ARE: all of them objects / arrays, or all of them scalars)
            let kinds: Vec<u8> = list.kinds.iter().filter_map(|k| *k).collect();
            if kinds.len() == reals.len() {
                if kinds.iter().all(|k| *k != 0) {
                    pops.push(format!("{tagk}.hidden-values-all-structured"));
                } else if kinds.iter().all(|k| *k == 0) {
                    pops.push(format!("{tagk}.hidden-values-all-scalar"));
                }
            }
            for pop in pops {
                l.count(&format!("order.{pop}.lists>=2real"));
                if in_order {
                    l.count(&format!("order.{pop}.in-member-order"));
                }
            }
            // the same for the order of the hidden members' NAMES (lists whose member order is not
            // already the name order, with at least three real digests: chance 1/6 or less each)
            let ranks: Vec<usize> = list.name_ranks.iter().filter_map(|e| *e).collect();
            if ranks.len() >= 3 && !in_order {
                let by_name = ranks.windows(2).all(|w| w[0] < w[1]);
                for pop in ["all".to_string(), tagk.to_string()] {
                    l.count(&format!("order.{pop}.lists>=3real-not-in-member-order"));
                    if by_name {
                        l.count(&format!("order.{pop}.in-name-order"));
                    }
                }
            }
            if decoys {
                if let Some(first_decoy) = list.entries.iter().position(|e| e.is_none()) {
                    let last = list.entries[first_decoy..].iter().all(|e| e.is_none());
                    let mut dpops = vec!["decoys-on".to_string(), format!("decoys-on.{loc}")];
                    if list.has_visible {
                        dpops.push("decoys-on.partly-visible-object".to_string());
                    }
                    for pop in dpops {
                        l.count(&format!("order.{pop}.lists-with-decoy"));
                        if last {
                            l.count(&format!("order.{pop}.all-decoys-last"));
                        }
                    }
                }
            }
        }
        // inert: holder + verifier behave as the decoy-free model says
        if k < 4 {
            let mut holder = match api::holder_new(&issued.sd_jwt, cfg.fmt) {
                Outcome::Ok(h) => h,
                other => {
                    let other = other.map(|_| ());
                    l.violate(Violation { subcheck: "holder-new".into(), class: tagk.into(), observed: other.panic_signature().unwrap_or_else(|| other.describe()), case, detail: json!({"input": base_input(), "history": api::history()}) });
                    continue;
                }
            };
            let use_sel = if k < 2 { &sel } else { &all_sel };
            let pres = match api::present(&mut holder, use_sel, None) {
                Outcome::Ok(p) => p,
                other => {
                    l.violate(Violation { subcheck: "present".into(), class: tagk.into(), observed: other.panic_signature().unwrap_or_else(|| other.describe()), case, detail: json!({"input": base_input(), "selection": use_sel, "history": api::history()}) });
                    continue;
                }
            };
            if k < 2 {
                if let Err((sub, obs, extra)) = check_presentation(cfg.fmt, &pres, &issued, &d, false) {
                    l.violate(Violation { subcheck: sub.into(), class: tagk.into(), observed: obs, case, detail: json!({"input": base_input(), "selection": sel, "extra": extra, "decoy_digests": issued.loc.unmatched}) });
                }
            }
            let ver = api::verify(&pres, &Resolver::Fixed(cfg.alg, 0), None, cfg.fmt);
            match ver.out {
                Outcome::Ok(v) => {
                    if k < 2 {
                        if let Some((at, e, g, _)) = model::first_diff(&expected, &v) {
                            l.violate(Violation { subcheck: "claims-differ-from-model".into(), class: tagk.into(), observed: "verified claims differ from the decoy-ignoring model".into(), case, detail: json!({"input": base_input(), "selection": sel, "at": at, "expected": e, "got": g}) });
                        } else {
                            l.count("verified.equal-to-model");
                        }
                        twin[k as usize] = Some(v);
                    } else if v != model::with_cnf(s.u.clone(), jwk.as_ref()) {
                        l.violate(Violation { subcheck: "select-all-returns-original".into(), class: tagk.into(), observed: "select-all on a credential did not return the original claims".into(), case, detail: json!({"input": base_input(), "got": v}) });
                    } else {
                        l.count("verified.equal-to-model");
                    }
                }
                other => l.violate(Violation { subcheck: "verify".into(), class: tagk.into(), observed: other.panic_signature().unwrap_or_else(|| other.describe()), case, detail: json!({"input": base_input(), "history": api::history()}) }),
            }
        }
    }
    // ---- holder and verifier results for ANY call are those of the decoy-free case: selections that name
    // members the claims do not have (in objects with and without hidden members), and key-bound
    // presentations of credentials whose confirmation key came in as an ordinary visible `cnf` claim
    if case % 4 == 1 {
        let mut u2 = s.u.clone();
        let mut strat2 = s.strat.clone();
        let user_cnf = case % 8 == 5 && cfg.holder.is_none() && u2.get("cnf").is_none();
        if user_cnf {
            u2["cnf"] = json!({"jwk": keys::holder_jwk_json_canonical(Alg::ES256, 0)});
            let kind = if cfg.strat.is_custom() { cfg.strat } else { gen::StratKind::NoSD };
            strat2 = gen::gen_strategy(&mut r, &u2, kind);
            if strat2.sd.iter().any(|p| matches!(p.first(), Some(gen::Step::K(k)) if k == "cnf")) {
                strat2 = gen::gen_strategy(&mut r, &u2, gen::StratKind::NoSD);
            }
        }
        let mut pair = vec![];
        for decoys in [false, true] {
            if let Ok(i) = pipeline::issue_with(&mut issuer, &u2, &strat2, cfg.holder, decoys, cfg.fmt) {
                pair.push(i);
            }
        }
        if pair.len() == 2 {
            let kbh = if user_cnf { Some((Alg::ES256, 0usize)) } else { cfg.holder };
            for round in 0..4 {
                let base = pipeline::random_selection(&mut r, &u2);
                let sel2 = if round == 0 { base } else { gen::spoil_selection(&mut r, &u2, &base) };
                let kb = kbh.filter(|_| user_cnf || r.chance(40)).map(|h| pipeline::kb_args_for(&mut r, h));
                let mut outs = vec![];
                for i in &pair {
                    l.evals += 1;
                    let o: Outcome<Value> = match api::holder_new(&i.sd_jwt, cfg.fmt) {
                        Outcome::Ok(mut h) => match api::present(&mut h, &sel2, kb.as_ref()) {
                            Outcome::Ok(p) => api::verify(&p, &Resolver::Fixed(cfg.alg, 0), kb.as_ref().map(|k| (k.aud.as_str(), k.nonce.as_str())), cfg.fmt).out,
                            other => other.map(|_| Value::Null),
                        },
                        other => other.map(|_| Value::Null),
                    };
                    outs.push(o);
                }
                let same = match (&outs[0], &outs[1]) {
                    (Outcome::Ok(a), Outcome::Ok(b)) => a == b,
                    (a, b) => a.class() == b.class(),
                };
                if same {
                    l.count(&format!("twin.calls.same-result.{}", if outs[0].is_ok() { "ok" } else { "refused" }));
                    if user_cnf && outs[0].is_ok() {
                        l.count("twin.calls.user-cnf-key-bound.ok");
                    }
                } else {
                    l.violate(Violation {
                        subcheck: "twin-call-differs".into(),
                        class: format!("{}{}", if round == 0 { "ordinary selection" } else { "selection naming an absent member" }, if user_cnf { ", cnf given as a visible claim, key-bound" } else { "" }),
                        observed: format!("without decoys: {}, with decoys: {}", outs[0].class(), outs[1].class()),
                        case,
                        detail: json!({"claims": u2, "strategy": strat2.describe(), "selection": sel2, "key_bound": kb.is_some(),
                                       "without_decoys": outs[0].describe(), "with_decoys": outs[1].describe()}),
                    });
                }
            }
        }
    }
    if let (Some(a), Some(b)) = (&twin[0], &twin[1]) {
        if a == b {
            l.count("twin.same-claims");
        } else {
            l.violate(Violation { subcheck: "twin-differs".into(), class: class.into(), observed: "decoy-on and decoy-off credentials verify to different claims".into(), case, detail: json!({"input": base_input(), "selection": sel, "with_decoys": a, "without": b, "first": path_str(&vec![])}) });
        }
    }
}
