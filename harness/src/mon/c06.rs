//! C06 — a presentation carries exactly the selected disclosures and nothing else.
//! Oracle: model D(U,SD,sel) mapped through the locator's path->disclosure map; grammar check on
//! the output string. Weak form for arbitrary selection JSON.

use crate::api::{self, Outcome};
use crate::evidence::{run_cases, Ctx, Local, Report, Tier, Violation};
use crate::gen::{self, path_str, Path, SelKind};
use crate::model::{self, Fmt, Parts};
use crate::pipeline::{self, Config, Issued, Scenario};
use crate::rng::Rng;
use serde_json::{json, Value};
use std::collections::{BTreeMap, BTreeSet};

const STREAM: u64 = 6;

pub fn run(ctx: &Ctx) -> Report {
    let n = ctx.cases(40_000, 2_000_000);
    let local = run_cases(ctx, n, |case, l| one_case(ctx, case, l));
    let mut rep = Report::new(
        "exploration",
        "case i: one issued credential (configuration as C01) x (5 quick / 8 thorough) type-consistent selections + 2 arbitrary-JSON \
         selections, each on a fresh holder, key binding requested on half of the key-bound credentials. evaluations = presentations \
         requested. Distinct = (claims shape, SD positions, disclosed positions, format, kb flag); non-trivial = >=1 SD path and the \
         selection discloses a non-empty proper subset or is an extreme.",
        local,
    );
    rep.assumptions = vec![
        "path->disclosure map comes from the harness locator on the issued token (cross-checked by C05)".into(),
        "order of disclosures inside a presentation is not constrained by the property".into(),
    ];
    rep.floor("strict.exact", 1000);
    rep.floor("weak.returned", 50);
    rep.floor("kb.requested", 100);
    rep.floor("format.Compact", 100);
    rep.floor("format.JSON", 100);
    rep
}

fn viol(case: u64, sub: &str, class: &str, observed: String, detail: Value) -> Violation {
    Violation {
        subcheck: sub.into(),
        class: class.into(),
        observed,
        case,
        detail,
    }
}

/// Strict check of one presentation string against the expected disclosure set.
/// Returns Err((subcheck, observed, extra detail)).
pub fn check_presentation(
    fmt: Fmt,
    pres: &str,
    issued: &Issued,
    expected: &BTreeSet<Path>,
    kb_requested: bool,
) -> Result<Parts, (&'static str, String, Value)> {
    let parts = Parts::parse(fmt, pres).map_err(|e| ("presentation-grammar", e, json!(null)))?;
    if fmt == Fmt::Compact && parts.to_compact() != pres {
        return Err((
            "presentation-grammar",
            "compact output is not exactly jwt~d1~..~dn~[kb]".into(),
            json!(null),
        ));
    }
    if parts.jwt != issued.parts.jwt {
        return Err((
            "issuer-jwt-not-byte-identical",
            "issuer-signed JWT differs from the issued one".into(),
            json!({"issued": issued.parts.jwt, "presented": parts.jwt}),
        ));
    }
    match (&parts.kb, kb_requested) {
        (Some(_), false) => return Err(("kb-present-but-not-requested", "KB-JWT present".into(), json!(null))),
        (None, true) => return Err(("kb-missing", "KB-JWT requested but absent".into(), json!(null))),
        _ => {}
    }
    let rev: BTreeMap<&String, &Path> = issued.loc.map.iter().map(|(p, d)| (d, p)).collect();
    let want: BTreeSet<&String> = expected.iter().filter_map(|p| issued.loc.map.get(p)).collect();
    let mut got: BTreeSet<&String> = BTreeSet::new();
    for d in &parts.disclosures {
        if !rev.contains_key(d) {
            return Err((
                "foreign-data-in-presentation",
                "presentation contains a string that is not an issued disclosure".into(),
                json!({"string": d}),
            ));
        }
        if !got.insert(d) {
            return Err((
                "disclosure-repeated",
                "a disclosure appears more than once".into(),
                json!({"path": path_str(rev[d])}),
            ));
        }
    }
    if got != want {
        let extra: Vec<String> = got.difference(&want).map(|d| path_str(rev[*d])).collect();
        let missing: Vec<String> = want.difference(&got).map(|d| path_str(rev[*d])).collect();
        let obs = match (extra.is_empty(), missing.is_empty()) {
            (false, true) => "unselected disclosure(s) included",
            (true, false) => "selected disclosure(s) missing",
            _ => "disclosure set differs (extra and missing)",
        };
        return Err(("disclosure-set", obs.into(), json!({"extra": extra, "missing": missing})));
    }
    Ok(parts)
}

/// KB-JWT sanity (format only; enforcement is C04's): three segments, typ kb+jwt, sd_hash over
/// exactly the presented jwt~d1~..~dn~.
pub fn check_kb_shape(parts: &Parts, aud: &str, nonce: &str) -> Result<(), String> {
    let kb = parts.kb.as_ref().ok_or("no kb")?;
    let segs: Vec<&str> = kb.split('.').collect();
    if segs.len() != 3 {
        return Err("KB-JWT is not three segments".into());
    }
    let h: Value = serde_json::from_slice(&model::b64d(segs[0])?).map_err(|e| e.to_string())?;
    let p: Value = serde_json::from_slice(&model::b64d(segs[1])?).map_err(|e| e.to_string())?;
    if h["typ"] != "kb+jwt" {
        return Err(format!("KB-JWT typ is {}", h["typ"]));
    }
    let mut s = parts.jwt.clone();
    for d in &parts.disclosures {
        s.push('~');
        s.push_str(d);
    }
    s.push('~');
    if p["sd_hash"] != json!(model::digest_of(&s)) {
        return Err("KB-JWT sd_hash is not the digest of the presented jwt~disclosures~".into());
    }
    if p["aud"] != json!(aud) || p["nonce"] != json!(nonce) {
        return Err("KB-JWT aud/nonce differ from the requested ones".into());
    }
    if !p["iat"].is_u64() {
        return Err("KB-JWT iat missing".into());
    }
    Ok(())
}

fn one_case(ctx: &Ctx, case: u64, l: &mut Local) {
    let mut r = Rng::for_case(ctx.seed, STREAM, case);
    let cfg = Config::from_index(case);
    let mut s: Scenario = pipeline::gen_scenario(ctx, &mut r, cfg.clone());
    // once per 50 000 cases (once in the quick run): a hidden value of 9 MiB, an embedded document scan; the
    // presentation carries its disclosure like any other
    if case % 50_000 == 7 && !matches!(std::env::var("VERIF_LEG").as_deref(), Ok("miri") | Ok("valgrind")) {
        s.u["scan#9mib;"] = json!("S".repeat(9 * 1024 * 1024));
        s.u["scans#9mib;"] = json!([{"page": 1, "data": "T".repeat(6 * 1024 * 1024 + 17)}]);
        s.strat = gen::gen_strategy(&mut r, &s.u, if matches!(cfg.strat, gen::StratKind::NoSD) || cfg.strat.is_custom() { gen::StratKind::TopLevel } else { cfg.strat });
        l.count("boundary.nine-mebibyte-value");
    }
    let class = cfg.profile.name();
    let base_input = || json!({"config": cfg.describe(), "claims": s.u, "strategy": s.strat.describe()});
    let issued = match pipeline::issue_scenario(&s) {
        Ok(i) if i.loc.complaints.is_empty() => i,
        Ok(i) => {
            // C05's business; here the credential cannot be used as a base
            l.count("skipped.locator-complaints");
            let _ = i;
            return;
        }
        Err(_) => {
            l.count("skipped.issue-failed");
            return;
        }
    };
    l.count(&format!("format.{}", cfg.fmt.name()));
    let all = gen::all_paths(&s.u);
    let pos = |set: &BTreeSet<Path>| -> u64 {
        let mut h = 0u64;
        for (i, p) in all.iter().enumerate() {
            if set.contains(p) {
                h = crate::rng::mix(h ^ (i as u64 + 1));
            }
        }
        h
    };
    let n_strict = if ctx.tier == Tier::Quick { 5 } else { 8 };
    let mut shared_holder: Option<sd_jwt_rs::SDJWTHolder> = None;
    for k in 0..n_strict {
        let sel_kind = if k == 0 {
            SelKind::Everything
        } else if k == 1 {
            SelKind::Nothing
        } else {
            pipeline::pick_sel_kind(&mut r)
        };
        let sel = gen::gen_selection(&mut r, &s.u, sel_kind);
        let (_, d) = model::view(&s.u, &sel, &s.strat.sd);
        let kb = match cfg.holder {
            Some(h) if r.chance(50) => Some(pipeline::kb_args_for(&mut r, h)),
            _ => None,
        };
        l.evals += 1;
        if kb.is_some() {
            l.count("kb.requested");
        }
        let input = || json!({"base": base_input(), "selection": sel, "kb": kb.is_some()});
        if k == 2 {
            l.sample(case, input);
        }
        let nontrivial = !s.strat.sd.is_empty()
            && (matches!(sel_kind, SelKind::Nothing | SelKind::Everything) || (!d.is_empty() && d.len() < s.strat.sd.len()));
        if nontrivial {
            l.distinct(crate::rng::mix(
                gen::shape_fingerprint(&s.u) ^ pos(&s.strat.sd).rotate_left(17) ^ pos(&d).rotate_left(31) ^ (cfg.fmt as u64) ^ ((kb.is_some() as u64) << 1),
            ));
        }
        // even cases: a fresh holder per presentation; odd cases: one holder for all of them
        // (a key-binding JWT must appear only in the presentation it was requested for)
        if shared_holder.is_none() || case % 2 == 0 {
            shared_holder = match api::holder_new(&issued.sd_jwt, cfg.fmt) {
                Outcome::Ok(h) => Some(h),
                other => {
                    let other = other.map(|_| ());
                    l.violate(viol(case, "holder-new", class, other.panic_signature().unwrap_or_else(|| other.describe()), json!({"input": input(), "history": api::history()})));
                    return;
                }
            };
        } else {
            l.count("holder.reused");
        }
        let holder = shared_holder.as_mut().unwrap();
        let pres = match api::present(holder, &sel, kb.as_ref()) {
            Outcome::Ok(p) => p,
            other => {
                l.violate(viol(case, "present", class, other.panic_signature().unwrap_or_else(|| other.describe()), json!({"input": input(), "history": api::history()})));
                continue;
            }
        };
        match check_presentation(cfg.fmt, &pres, &issued, &d, kb.is_some()) {
            Err((sub, obs, extra)) => l.violate(viol(case, sub, class, obs, json!({"input": input(), "extra": extra, "presentation": pres, "history": api::history()}))),
            Ok(parts) => {
                l.count("strict.exact");
                l.add("disclosures.presented", parts.disclosures.len() as u64);
                if let Some(k) = &kb {
                    match check_kb_shape(&parts, &k.aud, &k.nonce) {
                        Ok(()) => l.count("kb.shape-ok"),
                        Err(e) => l.violate(viol(case, "kb-shape", class, e, json!({"input": input(), "presentation": pres}))),
                    }
                }
            }
        }
    }
    // weak form: arbitrary selection JSON
    for _ in 0..2 {
        let sel = gen::gen_arbitrary_selection(&mut r, &s.u, 3);
        l.evals += 1;
        let input = || json!({"base": base_input(), "selection": sel, "form": "weak"});
        let mut holder = match api::holder_new(&issued.sd_jwt, cfg.fmt) {
            Outcome::Ok(h) => h,
            _ => return,
        };
        match api::present(&mut holder, &sel, None) {
            Outcome::Err(_) => l.count("weak.rejected"),
            p @ Outcome::Panic(..) => l.violate(viol(case, "panic", "arbitrary-selection", p.panic_signature().unwrap(), json!({"input": input(), "history": api::history()}))),
            Outcome::Ok(pres) => {
                l.count("weak.returned");
                let parts = match Parts::parse(cfg.fmt, &pres) {
                    Ok(p) => p,
                    Err(e) => {
                        l.violate(viol(case, "presentation-grammar", "arbitrary-selection", e, json!({"input": input(), "presentation": pres})));
                        continue;
                    }
                };
                let rev: BTreeMap<&String, &Path> = issued.loc.map.iter().map(|(p, d)| (d, p)).collect();
                let mut seen: BTreeSet<&String> = BTreeSet::new();
                let mut problem: Option<(&'static str, String)> = None;
                if parts.jwt != issued.parts.jwt {
                    problem = Some(("issuer-jwt-not-byte-identical", "issuer-signed JWT differs".into()));
                }
                if parts.kb.is_some() {
                    problem = Some(("kb-present-but-not-requested", "KB-JWT present".into()));
                }
                for d in &parts.disclosures {
                    if !rev.contains_key(d) {
                        problem = Some(("foreign-data-in-presentation", "not an issued disclosure".into()));
                    } else if !seen.insert(d) {
                        problem = Some(("disclosure-repeated", path_str(rev[d])));
                    }
                }
                if problem.is_none() {
                    for d in &seen {
                        let p = rev[*d];
                        for n in 1..p.len() {
                            let anc = p[..n].to_vec();
                            if s.strat.sd.contains(&anc) {
                                match issued.loc.map.get(&anc) {
                                    Some(ad) if seen.contains(ad) => {}
                                    _ => problem = Some(("disclosure-without-hidden-ancestor", format!("{} without {}", path_str(p), path_str(&anc)))),
                                }
                            }
                        }
                    }
                }
                match problem {
                    None => l.count("weak.ok"),
                    Some((sub, obs)) => l.violate(viol(case, sub, "arbitrary-selection", obs, json!({"input": input(), "presentation": pres}))),
                }
            }
        }
    }
}
