//! C14 — every disclosure gets a fresh, unpredictable salt of at least 128 bits.
//! History / schedule monitor: T in {1,2,4,8,16} threads released by a barrier issue credentials
//! (AllLevels + decoys, so that every node draws a salt) in four ownership patterns; every salt
//! and decoy digest of the whole run goes into one set for the pairwise check; per-bit balance;
//! digest = SHA-256(disclosure text). Overlap of issuances across threads is measured, a
//! multi-threaded run without overlap is inconclusive. Thorough tier adds a ThreadSanitizer leg.

use crate::api::{self, Outcome};
use crate::evidence::{Ctx, Local, Report, Tier, Violation};
use crate::gen::{self, StratKind};
use crate::keys::{Alg, ALL_ALGS};
use crate::model::{self, Fmt, Parts};
use crate::rng::Rng;
use sd_jwt_rs::SDJWTIssuer;
use serde_json::{json, Value};
use std::collections::{HashMap, HashSet};
use std::sync::{Arc, Barrier, Mutex};
use std::time::Instant;

const STREAM: u64 = 14;

#[derive(Default)]
struct Harvest {
    salts: Vec<String>,
    decoys: Vec<String>,
    /// (start_ns, end_ns, thread)
    spans: Vec<(u64, u64, u32)>,
    credentials: u64,
    problems: Vec<(String, String, Value)>,
    counts: Vec<(String, u64)>,
}

fn collect_digests(v: &Value, out: &mut Vec<String>) {
    match v {
        Value::Object(m) => {
            for (k, c) in m {
                if k == "_sd" {
                    if let Some(a) = c.as_array() {
                        for d in a {
                            if let Some(s) = d.as_str() {
                                out.push(s.to_string());
                            }
                        }
                    }
                } else if k == "..." && m.len() == 1 {
                    if let Some(s) = c.as_str() {
                        out.push(s.to_string());
                    }
                } else {
                    collect_digests(c, out);
                }
            }
        }
        Value::Array(a) => a.iter().for_each(|c| collect_digests(c, out)),
        _ => {}
    }
}

/// Decode one issued credential, harvest salts and decoy digests, check local clauses.
fn harvest_one(sd_jwt: &str, fmt: Fmt, h: &mut Harvest, ctxd: &dyn Fn() -> Value) {
    let parts = match Parts::parse(fmt, sd_jwt) {
        Ok(p) => p,
        Err(e) => {
            h.problems.push(("issued-string-malformed".into(), e, ctxd()));
            return;
        }
    };
    let payload = match parts.payload() {
        Ok(p) => p,
        Err(e) => {
            h.problems.push(("issued-string-malformed".into(), e, ctxd()));
            return;
        }
    };
    let mut embedded = vec![];
    collect_digests(&payload, &mut embedded);
    let mut mine: HashSet<String> = HashSet::new();
    for d in &parts.disclosures {
        let text = model::b64d(d).ok().and_then(|b| String::from_utf8(b).ok()).unwrap_or_default();
        let v: Value = serde_json::from_str(&text).unwrap_or(Value::Null);
        let arr = v.as_array().cloned().unwrap_or_default();
        match arr.first().and_then(Value::as_str) {
            Some(salt) => {
                let ok = salt.bytes().all(|b| b.is_ascii_alphanumeric() || b == b'-' || b == b'_') && model::b64d(salt).map(|b| b.len() >= 16).unwrap_or(false);
                if !ok {
                    h.problems.push(("salt-not-base64url-of-16-bytes".into(), format!("salt {salt:?} is not base64url of >= 16 bytes"), json!({"disclosure": text, "ctx": ctxd()})));
                }
                h.salts.push(salt.to_string());
                // a salt must not be computable from the disclosure it protects: compare with the
                // leading 16 bytes of SHA-256 over the obvious texts (value, name, name+value, the
                // disclosure without its salt, the digests it embeds)
                if let Ok(sb) = model::b64d(salt) {
                    if sb.len() >= 16 {
                        use sha2::Digest;
                        let val = arr.last().cloned().unwrap_or(Value::Null);
                        let name = if arr.len() == 3 { arr[1].as_str().unwrap_or("").to_string() } else { String::new() };
                        let after_salt = text.find(salt).map(|i| text[i + salt.len()..].to_string()).unwrap_or_default();
                        let mut cands: Vec<String> = vec![val.to_string(), name.clone(), format!("{name}{val}"), format!("{name}:{val}"), after_salt.clone(), after_salt.trim_start_matches(['"', ',', ' ']).to_string()];
                        if let Some(s) = val.as_str() {
                            cands.push(s.to_string());
                        }
                        if let Ok(p) = serde_json::to_string_pretty(&val) {
                            cands.push(p);
                        }
                        for c in cands {
                            if c.is_empty() {
                                continue;
                            }
                            for dg in [sha2::Sha256::digest(c.as_bytes()).to_vec(), sha2::Sha512::digest(c.as_bytes()).to_vec()] {
                                if dg[..16] == sb[..16] || dg[dg.len() - 16..] == sb[..16] {
                                    h.problems.push(("salt-derived-from-content".into(), "a salt equals a hash of the content it protects".into(), json!({"disclosure": text, "hashed_text": c, "ctx": ctxd()})));
                                }
                            }
                        }
                    }
                }
            }
            None => h.problems.push(("disclosure-without-string-salt".into(), "first element of a disclosure is not a string".into(), json!({"disclosure": text, "ctx": ctxd()}))),
        }
        if let Some(last) = arr.last() {
            collect_digests(last, &mut embedded);
        }
        mine.insert(model::digest_of(d));
    }
    // salts of ONE credential must not be derived from each other: any two differ in many bits
    // (two independent 128-bit values are closer than 24 bits with probability < 1e-15)
    {
        let n0 = h.salts.len() - parts.disclosures.len().min(h.salts.len());
        let raw: Vec<u128> = h.salts[n0..].iter().filter_map(|s| model::b64d(s).ok()).filter(|b| b.len() >= 16).map(|b| u128::from_be_bytes(b[..16].try_into().unwrap())).collect();
        'outer: for i in 0..raw.len() {
            for k in i + 1..raw.len() {
                let dist = (raw[i] ^ raw[k]).count_ones();
                if dist < 24 && raw[i] != raw[k] {
                    h.problems.push(("salts-related".into(), format!("two salts of one credential differ in only {dist} of 128 bits"), json!({"salt_a": format!("{:032x}", raw[i]), "salt_b": format!("{:032x}", raw[k]), "ctx": ctxd()})));
                    break 'outer;
                }
            }
        }
    }
    let emb: HashSet<&String> = embedded.iter().collect();
    for m in &mine {
        if !emb.contains(m) {
            h.problems.push(("digest-is-not-sha256-of-disclosure".into(), "no embedded digest equals SHA-256 of an issued disclosure's base64url text".into(), ctxd()));
            break;
        }
    }
    if emb.len() != embedded.len() {
        h.problems.push(("digest-repeats-within-credential".into(), "a digest occurs twice in one credential".into(), ctxd()));
    }
    {
        // a decoy digest must not be derived from a salt this credential hands out
        use sha2::Digest;
        let n0 = h.salts.len() - parts.disclosures.len().min(h.salts.len());
        let mut derived: HashSet<String> = HashSet::new();
        for sa in &h.salts[n0..] {
            derived.insert(model::digest_of(sa));
            if let Ok(raw) = model::b64d(sa) {
                derived.insert(model::b64e(&sha2::Sha256::digest(&raw)));
            }
        }
        for d in &embedded {
            if !mine.contains(d) && derived.contains(d) {
                h.problems.push(("decoy-derived-from-a-salt".into(), "a decoy digest equals the hash of a salt of the same credential".into(), json!({"decoy": d, "ctx": ctxd()})));
                break;
            }
        }
    }
    for d in embedded {
        if !mine.contains(&d) {
            h.decoys.push(d);
        }
    }
    h.credentials += 1;
}

fn claims_for(r: &mut Rng, same: bool, thread: u32, i: u64) -> Value {
    let mut v = json!({
        "iss": "https://issuer.example/A", "exp": 4_000_000_000u64, "jti": "urn:uuid:6c5c0a49-b589-431d-bae7-219122a9ec2c", "sub": "user-42", "nonce": "n-0S6_WzA2Mj",
        "name": "Erika Mustermann", "stra\u{df}e": "Heidestr. 17", "\u{438}\u{43c}\u{44f}": {"\u{4e2d}": 1, "\u{1f600}k": [true]}, "address": {"street": "Heidestr. 17", "city": "Köln", "geo": {"lat": 50.9, "lon": 6.9}},
        "nationalities": ["DE", "FR", ["x", "y"]], "items": [{"a": 1}, {"b": [1, 2]}], "flag": true, "none": null,
        // names that read like paths of other claims: every disclosure still needs its own salt
        "address.street": "x", "address.geo.lat": 1, "nationalities[1]": "FR", "items[0].a": 1, "items[1]": {"b": [1, 2]},
        "nationalities[2][0]": "x", "$.name": "Erika Mustermann", "": {"": ""}, "twins": ["same", "same", {"a": 1}, {"a": 1}], "empty": {}, "empties": [{}, [], {}],
        // several empty containers, nulls, equal scalars as MEMBERS of one object; non-ASCII array elements
        "roles": [], "extras": {}, "more": {"a": [], "b": [], "c": {}, "d": {}, "e": null, "f": null, "g": "", "h": "", "i": 0, "j": 0, "k": false, "l": false},
        // a member of several KB that is the same in every credential (a cached disclosure would repeat its salt)
        "bio": "B".repeat(3000),
        "cities": ["K\u{f6}ln", "\u{6771}\u{4eac}", "\u{1f600}", ["M\u{fc}nchen"], {"\u{e9}": "\u{e9}"}]
    });
    if !same {
        v["thread"] = json!(thread);
        v["seq"] = json!(i);
        v["rnd"] = json!(format!("{:x}", r.next()));
    }
    if i == 1 {
        // one credential with several hundred disclosures (pool / batch boundaries at 256, 257)
        v["wide"] = Value::Array((0..300).map(|k| json!(k)).collect());
    }
    if i % 5 == 4 {
        // credentials with nothing (or one claim) to hide: all their digests are decoys
        return if i % 2 == 0 { json!({"iss": "https://issuer.example/A", "exp": 4_000_000_000u64, "iat": 1_700_000_000u64}) } else { json!({"iss": "https://issuer.example/A", "exp": 4_000_000_000u64, "only": thread}) };
    }
    if i == 3 {
        // one object with 40 members (decoy count / pool boundaries inside one `_sd` list) and two
        // equal multi-member subtrees in one credential
        let mut m = serde_json::Map::new();
        for k in 0..40 {
            m.insert(format!("m{k}"), json!(k));
        }
        v["forty"] = Value::Object(m);
        v["billing"] = json!({"street": "Heidestr. 17", "city": "Köln", "zip": "51147"});
        v["shipping"] = json!({"street": "Heidestr. 17", "city": "Köln", "zip": "51147"});
    }
    if i == 2 {
        // one disclosure whose text is larger than 64 KiB (digest must cover all of it)
        v["portrait"] = json!("A".repeat(70_000));
    }
    v
}

#[derive(Clone, Copy, Debug, PartialEq)]
enum Pattern {
    IssuerPerThread,
    FreshIssuerPerCredential,
    FreshThreadPerCredential,
    IssuersHandedAround,
}

fn run_pattern(seed: u64, pattern: Pattern, threads: u32, per_thread: u64, same_claims: bool, alg: Alg, epoch: Instant) -> Harvest {
    let barrier = Arc::new(Barrier::new(threads as usize));
    let ring: Arc<Vec<Mutex<SDJWTIssuer>>> = Arc::new((0..threads).map(|_| Mutex::new(api::new_issuer(alg, 0, true))).collect());
    let mut handles = vec![];
    for t in 0..threads {
        let barrier = barrier.clone();
        let ring = ring.clone();
        handles.push(std::thread::spawn(move || {
            let mut r = Rng::for_case(seed, STREAM, (t as u64) << 32 | pattern as u64);
            let mut h = Harvest::default();
            let strat_all = |u: &Value| gen::gen_strategy(&mut Rng(1), u, StratKind::AllLevels);
            let mut own = api::new_issuer(alg, 0, true);
            barrier.wait();
            for i in 0..per_thread {
                let u = claims_for(&mut r, same_claims, t, i);
                let fmt = if i % 2 == 0 { Fmt::Compact } else { Fmt::Json };
                let strat = strat_all(&u);
                // every seventh call on a reused instance is preceded by a call that FAILS (claims that are not an
                // object; a reserved member name after some disclosable ones): whatever a failed call does to the
                // instance's generator state must not make later salts repeat earlier ones
                if i % 7 == 3 {
                    let bad = if i % 2 == 0 { json!([1, 2]) } else { json!({"iss": "https://issuer.example/A", "exp": 4_000_000_000u64, "a": 1, "b": {"c": 2, "_sd": ["x"]}}) };
                    let bad_strat = strat_all(&bad);
                    match pattern {
                        Pattern::IssuerPerThread => {
                            let _ = api::issue(&mut own, &bad, &bad_strat, None, true, fmt);
                        }
                        Pattern::IssuersHandedAround => {
                            let idx = ((t as u64 + i) % threads as u64) as usize;
                            let mut g = ring[idx].lock().unwrap_or_else(|e| e.into_inner());
                            let _ = api::issue(&mut g, &bad, &bad_strat, None, true, fmt);
                        }
                        _ => {}
                    }
                }
                let t0 = epoch.elapsed().as_nanos() as u64;
                let out = match pattern {
                    Pattern::IssuerPerThread => api::issue(&mut own, &u, &strat, None, true, fmt),
                    Pattern::FreshIssuerPerCredential => {
                        let mut fresh = api::new_issuer(alg, 0, true);
                        api::issue(&mut fresh, &u, &strat, None, true, fmt)
                    }
                    Pattern::FreshThreadPerCredential => {
                        // a brand-new thread (fresh thread-local generator) for this one credential
                        let u2 = u.clone();
                        let strat2 = strat.clone();
                        std::thread::spawn(move || {
                            let mut fresh = api::new_issuer(alg, 0, true);
                            api::issue(&mut fresh, &u2, &strat2, None, true, fmt)
                        })
                        .join()
                        .unwrap_or(Outcome::Panic("thread".into(), "join failed".into()))
                    }
                    Pattern::IssuersHandedAround => {
                        let idx = ((t as u64 + i) % threads as u64) as usize;
                        let mut g = ring[idx].lock().unwrap_or_else(|e| e.into_inner());
                        api::issue(&mut g, &u, &strat, None, true, fmt)
                    }
                };
                let t1 = epoch.elapsed().as_nanos() as u64;
                h.spans.push((t0, t1, t));
                match out {
                    Outcome::Ok(s) => harvest_one(&s, fmt, &mut h, &|| json!({"pattern": format!("{pattern:?}"), "threads": threads, "thread": t, "i": i})),
                    other => h.problems.push(("issue".into(), other.panic_signature().unwrap_or_else(|| other.describe()), json!({"pattern": format!("{pattern:?}"), "thread": t, "i": i}))),
                }
            }
            h.counts = api::take_counts();
            h
        }));
    }
    let mut all = Harvest::default();
    for hd in handles {
        if let Ok(h) = hd.join() {
            all.salts.extend(h.salts);
            all.decoys.extend(h.decoys);
            all.spans.extend(h.spans);
            all.credentials += h.credentials;
            all.problems.extend(h.problems);
            all.counts.extend(h.counts);
        }
    }
    all
}

/// Child of the clock-jump leg: 4 long-lived threads (each with its own issuer) issue a batch, the
/// wall clock is moved (across minute / hour / day boundaries, and BACK to instants that were
/// already lived through), the same threads issue again, and so on. Prints every salt and decoy
/// digest with its phase. A generator that is (re)keyed from the wall clock repeats itself here.
pub fn clock_jump_child(seed: u64, off_file: &str) {
    let threads = 4u32;
    let per_phase = 6u64;
    let now0 = api::now() as i64;
    // offsets relative to the real clock; each is held for one phase
    let to_boundary = |m: i64| m - now0.rem_euclid(m);
    let offsets: Vec<i64> = vec![0, to_boundary(60), to_boundary(60) + 60, to_boundary(3600), to_boundary(86_400), 0, -1, to_boundary(60), -86_400, -31_557_600, 31_557_600, 0];
    let barrier = Arc::new(Barrier::new(threads as usize + 1));
    let mut handles = vec![];
    for t in 0..threads {
        let barrier = barrier.clone();
        let n_phases = offsets.len();
        handles.push(std::thread::spawn(move || {
            let mut r = Rng::for_case(seed, STREAM + 7, t as u64);
            let mut own = api::new_issuer(ALL_ALGS[(t % 3) as usize], 0, true);
            let mut rows: Vec<(usize, Harvest)> = vec![];
            for ph in 0..n_phases {
                barrier.wait(); // clock has been set for this phase
                let mut h = Harvest::default();
                for i in 0..per_phase {
                    let u = claims_for(&mut r, i % 2 == 0, t, 10 + i);
                    let strat = gen::gen_strategy(&mut Rng(1), &u, StratKind::AllLevels);
                    let fmt = if i % 2 == 0 { Fmt::Compact } else { Fmt::Json };
                    // half of the credentials from the long-lived issuer, half from a fresh one
                    let out = if i % 3 == 0 {
                        let mut fresh = api::new_issuer(ALL_ALGS[(t % 3) as usize], 0, true);
                        api::issue(&mut fresh, &u, &strat, None, true, fmt)
                    } else {
                        api::issue(&mut own, &u, &strat, None, true, fmt)
                    };
                    if let Outcome::Ok(s) = out {
                        harvest_one(&s, fmt, &mut h, &|| json!({"phase": ph, "thread": t}));
                    }
                }
                rows.push((ph, h));
                barrier.wait(); // phase done
            }
            rows
        }));
    }
    let mut phases = vec![];
    for (pi, off) in offsets.iter().enumerate() {
        if pi + 1 == offsets.len() && seed % 4 == 1 {
            // one child also lets its issuing threads sit idle for a few real seconds before the last
            // phase (a generator state that is dropped / rebuilt after idle time restarts its stream)
            std::thread::sleep(std::time::Duration::from_millis(3200));
        }
        let _ = std::fs::write(off_file, off.to_string());
        let vnow = api::now();
        barrier.wait();
        barrier.wait();
        phases.push(json!({"offset": off, "vnow": vnow}));
    }
    let mut salts: Vec<Value> = vec![];
    let mut decoys: Vec<Value> = vec![];
    for hd in handles {
        if let Ok(rows) = hd.join() {
            for (ph, h) in rows {
                salts.extend(h.salts.into_iter().map(|s| json!([ph, s])));
                decoys.extend(h.decoys.into_iter().map(|s| json!([ph, s])));
            }
        }
    }
    println!("{}", json!({"real_now": now0, "phases": phases, "salts": salts, "decoys": decoys}));
}

/// ALL-CAPS identifiers (>= 4 characters) that occur inside string literals of the library's
/// sources; the location of the sources is taken from the build (CARGO_MANIFEST_DIR of sd-jwt-rs is
/// not known at run time, so the path dependency recorded in this crate's Cargo.toml is read).
fn env_names_in_sources() -> Vec<String> {
    let manifest = concat!(env!("CARGO_MANIFEST_DIR"), "/Cargo.toml");
    let repo = std::fs::read_to_string(manifest)
        .ok()
        .and_then(|t| t.lines().find(|l| l.starts_with("sd-jwt-rs")).and_then(|l| l.split("path = \"").nth(1)).and_then(|x| x.split('"').next()).map(String::from))
        .unwrap_or_else(|| "/repo".into());
    let mut names = std::collections::BTreeSet::new();
    let mut stack = vec![std::path::PathBuf::from(format!("{repo}/src"))];
    while let Some(d) = stack.pop() {
        for e in std::fs::read_dir(&d).into_iter().flatten().flatten() {
            let p = e.path();
            if p.is_dir() {
                stack.push(p);
            } else if p.extension().map(|x| x == "rs").unwrap_or(false) {
                let text = std::fs::read_to_string(&p).unwrap_or_default();
                for lit in text.split('"').skip(1).step_by(2) {
                    if lit.len() >= 4 && lit.len() <= 64 && lit.bytes().all(|b| b.is_ascii_uppercase() || b.is_ascii_digit() || b == b'_') && lit.bytes().any(|b| b.is_ascii_uppercase()) && lit.contains('_') {
                        names.insert(lit.to_string());
                    }
                }
            }
        }
    }
    names.into_iter().take(64).collect()
}

/// Parent side of the clock-jump leg.
fn clock_jump_leg(ctx: &Ctx, l: &mut Local, all_salts: &mut Vec<String>, all_decoys: &mut Vec<String>) -> Value {
    let shim = format!("{}/shim/libvclock.so", ctx.verif_dir);
    if !std::path::Path::new(&shim).exists() {
        let src = format!("{}/shim/vclock.c", ctx.verif_dir);
        let _ = std::process::Command::new("cc").args(["-shared", "-fPIC", "-O1", "-o", &shim, &src, "-ldl"]).status();
    }
    if !std::path::Path::new(&shim).exists() {
        return json!({"status": "skipped: shim could not be built; decides nothing"});
    }
    let exe = match std::env::current_exe() {
        Ok(e) => e,
        Err(_) => return json!({"status": "skipped: own executable unknown"}),
    };
    let children: u64 = if ctx.tier == Tier::Quick { 4 } else { 12 };
    let mut out_rows = vec![];
    let env_names = env_names_in_sources();
    l.add("clock-jump.env-names-set", env_names.len() as u64);
    for c in 0..children {
        let off_file = format!("{}/.partials/c14-vclock-offset-{}-{c}", ctx.out_dir, std::process::id());
        let _ = std::fs::create_dir_all(format!("{}/.partials", ctx.out_dir));
        let _ = std::fs::write(&off_file, "0");
        let mut cmd = std::process::Command::new(&exe);
        cmd.args(["C14-vclock", &ctx.seed.wrapping_add(c).to_string(), &off_file]).env("LD_PRELOAD", &shim).env("VCLOCK_OFFSET_FILE", &off_file);
        // every second child runs in a hostile ENVIRONMENT: each ALL-CAPS name that occurs as a string
        // literal in the library's sources (a left-in seed / debug hook would be read from there) is set
        // to the same small number in all of these children; salts must still never repeat
        if c % 2 == 1 {
            for name in &env_names {
                cmd.env(name, "42");
            }
        }
        let out = cmd.output();
        let _ = std::fs::remove_file(&off_file);
        let v: Option<Value> = out.ok().filter(|o| o.status.success()).and_then(|o| String::from_utf8_lossy(&o.stdout).lines().last().and_then(|l| serde_json::from_str(l).ok()));
        let v = match v {
            Some(v) => v,
            None => {
                out_rows.push(json!({"child": c, "status": "child failed; decides nothing"}));
                continue;
            }
        };
        // shim self-test: the child's clock followed the offsets it wrote
        let real_now = v["real_now"].as_i64().unwrap_or(0);
        let moved = v["phases"].as_array().map(|a| a.iter().filter(|p| {
            let off = p["offset"].as_i64().unwrap_or(0);
            (p["vnow"].as_i64().unwrap_or(0) - (real_now + off)).abs() <= 120
        }).count()).unwrap_or(0);
        let n_ph = v["phases"].as_array().map(|a| a.len()).unwrap_or(0);
        if moved != n_ph || n_ph == 0 {
            out_rows.push(json!({"child": c, "status": "shim self-test failed (clock did not follow the offsets); decides nothing"}));
            continue;
        }
        let take = |key: &str| -> Vec<(u64, String)> { v[key].as_array().map(|a| a.iter().filter_map(|x| Some((x.get(0)?.as_u64()?, x.get(1)?.as_str()?.to_string()))).collect()).unwrap_or_default() };
        let (ss, dd) = (take("salts"), take("decoys"));
        for (name, list) in [("salt", &ss), ("decoy-digest", &dd)] {
            let mut seen: HashMap<&String, u64> = HashMap::new();
            for (ph, s) in list.iter() {
                if let Some(first) = seen.get(s) {
                    l.violate(Violation {
                        subcheck: format!("{name}-repeats"),
                        class: "after the wall clock was moved".into(),
                        observed: format!("two equal {name}s in one process whose clock jumped"),
                        case: c,
                        detail: json!({"value": s, "first_phase": first, "second_phase": ph, "phases": v["phases"], "replay": format!("LD_PRELOAD=shim/libvclock.so VCLOCK_OFFSET_FILE=<file> sdjwt-mon C14-vclock {} <file>", ctx.seed.wrapping_add(c))}),
                    });
                    break;
                }
                seen.insert(s, *ph);
            }
        }
        l.add("clock-jump.children", 1);
        l.add("clock-jump.phases", n_ph as u64);
        l.add("clock-jump.salts", ss.len() as u64);
        l.add("clock-jump.decoy-digests", dd.len() as u64);
        l.evals += (ss.len() / 20) as u64;
        out_rows.push(json!({"child": c, "phases": v["phases"], "salts": ss.len(), "decoy_digests": dd.len()}));
        all_salts.extend(ss.into_iter().map(|x| x.1));
        all_decoys.extend(dd.into_iter().map(|x| x.1));
    }
    json!(out_rows)
}

/// Many issuer instances: salts drawn by the first 64 instances of this leg are compared with
/// those of 64 instances created exactly 2^16, 2^20 and 2^24 instance creations later (a
/// per-instance stream selected by a truncated instance number repeats at such distances).
fn many_instances_leg(ctx: &Ctx, l: &mut Local, all_salts: &mut Vec<String>, all_decoys: &mut Vec<String>) -> Value {
    let key = jsonwebtoken::EncodingKey::from_secret(b"c14-many-instances");
    let u = json!({"iss": "https://issuer.example/A", "exp": 4_000_000_000u64, "a": 1, "b": [1, 2], "c": {"d": null}});
    let strat = gen::gen_strategy(&mut Rng(1), &u, StratKind::AllLevels);
    let window = |h: &mut Harvest, at: u64| {
        for i in 0..64u64 {
            // the signing algorithm (incl. the 384- and 512-bit HMACs) has no bearing on salts / digests
            let mut issuer = SDJWTIssuer::new(key.clone(), Some((*["HS256", "HS384", "HS512"].get((i % 3) as usize).unwrap()).to_string()));
            if let Outcome::Ok(s) = api::issue(&mut issuer, &u, &strat, None, true, Fmt::Compact) {
                harvest_one(&s, Fmt::Compact, h, &|| json!({"instances_created_before": at + i}));
            }
        }
    };
    let targets: &[u64] = if ctx.tier == Tier::Quick { &[1 << 16, 1 << 24] } else { &[1 << 16, 1 << 20, 1 << 24, 1 << 25] };
    let mut h = Harvest::default();
    let mut created = 0u64;
    window(&mut h, created);
    created += 64;
    let t0 = Instant::now();
    for &target in targets {
        // fill up to `target` creations with short-lived instances on all cores (exact count)
        let gap = target - created;
        let workers = 16u64;
        let mut hs = vec![];
        for w in 0..workers {
            let key = key.clone();
            let quota = gap / workers + if w < gap % workers { 1 } else { 0 };
            hs.push(std::thread::spawn(move || {
                for _ in 0..quota {
                    let issuer = SDJWTIssuer::new(key.clone(), Some("HS256".to_string()));
                    std::hint::black_box(&issuer);
                }
            }));
        }
        for x in hs {
            let _ = x.join();
        }
        created = target;
        window(&mut h, created);
        created += 64;
    }
    // "instance storm": all cores construct short-lived issuers at the same time (same clock
    // reading, same counter window) and each issues one small credential
    {
        let storm_threads = 16u32;
        let per = if ctx.tier == Tier::Quick { 6_000u64 } else { 60_000 };
        let barrier = Arc::new(Barrier::new(storm_threads as usize));
        let mut hs = vec![];
        for t in 0..storm_threads {
            let key = key.clone();
            let u = u.clone();
            let strat = strat.clone();
            let barrier = barrier.clone();
            hs.push(std::thread::spawn(move || {
                let mut h = Harvest::default();
                barrier.wait();
                for i in 0..per {
                    let mut issuer = SDJWTIssuer::new(key.clone(), Some("HS256".to_string()));
                    if let Outcome::Ok(s) = api::issue(&mut issuer, &u, &strat, None, false, Fmt::Compact) {
                        harvest_one(&s, Fmt::Compact, &mut h, &|| json!({"storm_thread": t, "i": i}));
                    }
                }
                let _ = api::take_counts();
                h
            }));
        }
        let mut storm = 0u64;
        for x in hs {
            if let Ok(sh) = x.join() {
                storm += sh.credentials;
                h.salts.extend(sh.salts);
                h.decoys.extend(sh.decoys);
                for (sub, obs, detail) in sh.problems.into_iter().take(5) {
                    l.violate(Violation { subcheck: sub, class: "instance storm".into(), observed: obs, case: 0, detail });
                }
            }
        }
        l.add("many-instances.storm-credentials", storm);
        l.evals += storm / 10;
    }
    // "thread storm": more than 2^16 short-lived threads, each drawing salts once (a per-thread
    // generator selected by a narrow thread counter repeats after 2^16 threads)
    {
        let total: u64 = (1 << 16) + 64;
        let batch = 64u64;
        let mut spawned = 0u64;
        while spawned < total {
            let mut hs = vec![];
            for _ in 0..batch.min(total - spawned) {
                let key = key.clone();
                let u = u.clone();
                let strat = strat.clone();
                hs.push(std::thread::spawn(move || {
                    let mut h = Harvest::default();
                    let mut issuer = SDJWTIssuer::new(key, Some("HS256".to_string()));
                    if let Outcome::Ok(s) = api::issue(&mut issuer, &u, &strat, None, false, Fmt::Compact) {
                        harvest_one(&s, Fmt::Compact, &mut h, &|| json!({"thread_storm": true}));
                    }
                    let _ = api::take_counts();
                    h
                }));
            }
            spawned += hs.len() as u64;
            for x in hs {
                if let Ok(sh) = x.join() {
                    h.salts.extend(sh.salts);
                    h.decoys.extend(sh.decoys);
                }
            }
        }
        l.add("many-instances.thread-storm-threads", spawned);
    }
    let mut seen: HashSet<&String> = HashSet::new();
    for s in h.salts.iter().chain(h.decoys.iter()) {
        if !seen.insert(s) {
            l.violate(Violation {
                subcheck: "salt-repeats".into(),
                class: "issuer instances created far apart".into(),
                observed: "two equal salts / decoy digests drawn by instances created a power-of-two number of instances apart".into(),
                case: 0,
                detail: json!({"value": s, "windows_at": targets, "instances_created": created}),
            });
            break;
        }
    }
    for (sub, obs, detail) in std::mem::take(&mut h.problems).into_iter().take(5) {
        l.violate(Violation { subcheck: sub, class: "issuers of the many-instances leg (HS256 / HS384 / HS512)".into(), observed: obs, case: 0, detail });
    }
    l.add("many-instances.created", created);
    l.add("many-instances.salts", h.salts.len() as u64);
    let info = json!({"instances_created": created, "windows_of_64_at": targets, "salts": h.salts.len(), "decoy_digests": h.decoys.len(), "wall_s": t0.elapsed().as_secs_f64()});
    all_salts.extend(h.salts);
    all_decoys.extend(h.decoys);
    info
}

/// (number of issuances that overlapped in time with an issuance of another thread, max in flight)
fn overlap_stats(spans: &[(u64, u64, u32)]) -> (u64, u64) {
    let mut ev: Vec<(u64, i32, u32)> = vec![];
    for (a, b, t) in spans {
        ev.push((*a, 1, *t));
        ev.push((*b, -1, *t));
    }
    ev.sort();
    let mut active: HashMap<u32, i32> = HashMap::new();
    let mut max_in_flight = 0u64;
    let mut overlapped = 0u64;
    for (_, d, t) in ev {
        if d == 1 {
            let others: i32 = active.iter().filter(|(k, _)| **k != t).map(|(_, v)| *v).sum();
            if others > 0 {
                overlapped += 1;
            }
            *active.entry(t).or_default() += 1;
            let tot: i32 = active.values().sum();
            max_in_flight = max_in_flight.max(tot as u64);
        } else {
            *active.entry(t).or_default() -= 1;
        }
    }
    (overlapped, max_in_flight)
}

pub fn run(ctx: &Ctx) -> Report {
    let mut l = Local::default();
    let per_run: u64 = ((match ctx.tier {
        Tier::Quick => 1_500.0,
        Tier::Thorough => 40_000.0,
    }) * ctx.scale) as u64;
    let epoch = Instant::now();
    let mut all_salts: Vec<String> = vec![];
    let mut all_decoys: Vec<String> = vec![];
    let mut runs = vec![];
    let mut inconclusive = vec![];
    let mut run_idx = 0u64;
    let leg = std::env::var("VERIF_LEG").unwrap_or_default();
    let thread_counts: &[u32] = if leg == "tsan" { &[16] } else { &[1, 2, 4, 8, 16] };
    for &threads in thread_counts {
        for pattern in [Pattern::IssuerPerThread, Pattern::FreshIssuerPerCredential, Pattern::FreshThreadPerCredential, Pattern::IssuersHandedAround] {
            let same = run_idx % 2 == 0;
            let alg = ALL_ALGS[(run_idx % 3) as usize];
            let per_thread = (per_run / threads as u64).max(4);
            let h = run_pattern(ctx.seed.wrapping_add(run_idx), pattern, threads, per_thread, same, alg, epoch);
            let (overlapped, max_in_flight) = overlap_stats(&h.spans);
            if threads > 1 && overlapped == 0 && pattern != Pattern::IssuersHandedAround {
                inconclusive.push(format!("{threads}-thread run of pattern {pattern:?} saw no overlapping issuances"));
            }
            l.evals += h.credentials;
            l.add("credentials", h.credentials);
            l.add(&format!("credentials.threads={threads}"), h.credentials);
            l.add(&format!("credentials.pattern={pattern:?}"), h.credentials);
            l.add("issuances.overlapping-with-another-thread", overlapped);
            l.max("max.issuances-in-flight", max_in_flight);
            for (k, v) in &h.counts {
                l.add(k, *v);
            }
            // distinct schedules observed: (threads, pattern, same-claims, alg)
            l.distinct(crate::rng::mix(threads as u64 ^ ((pattern as u64) << 8) ^ ((same as u64) << 12) ^ ((alg as u64) << 14)));
            runs.push(json!({"threads": threads, "pattern": format!("{pattern:?}"), "same_claims": same, "alg": alg.name(), "credentials": h.credentials,
                             "salts": h.salts.len(), "decoy_digests": h.decoys.len(), "overlapping_issuances": overlapped, "max_in_flight": max_in_flight}));
            for (sub, obs, detail) in h.problems.into_iter().take(20) {
                l.violate(Violation { subcheck: sub, class: format!("{pattern:?} x{threads}"), observed: obs, case: run_idx, detail });
            }
            all_salts.extend(h.salts);
            all_decoys.extend(h.decoys);
            run_idx += 1;
        }
    }
    let mut leg_info = serde_json::Map::new();
    if leg.is_empty() && ctx.only_case.is_none() {
        let v = clock_jump_leg(ctx, &mut l, &mut all_salts, &mut all_decoys);
        leg_info.insert("clock_jump_leg".into(), v);
        let v = many_instances_leg(ctx, &mut l, &mut all_salts, &mut all_decoys);
        leg_info.insert("many_instances_leg".into(), v);
    }
    l.add("salts", all_salts.len() as u64);
    l.add("decoy-digests", all_decoys.len() as u64);
    // pairwise uniqueness over the whole run
    for (name, v) in [("salt", &all_salts), ("decoy-digest", &all_decoys)] {
        let mut sorted: Vec<&String> = v.iter().collect();
        sorted.sort();
        let mut dups = 0u64;
        let mut example = None;
        for w in sorted.windows(2) {
            if w[0] == w[1] {
                dups += 1;
                example.get_or_insert_with(|| w[0].clone());
            }
        }
        l.add(&format!("{name}.distinct"), v.len() as u64 - dups);
        if dups > 0 {
            l.violate(Violation {
                subcheck: format!("{name}-repeats"),
                class: "whole-run".into(),
                observed: format!("two equal {name}s in one run"),
                case: 0,
                detail: json!({"repeats": dups, "example": example, "total": v.len()}),
            });
        }
    }
    // no two salts of the whole run share a long prefix or suffix (sorted neighbours; for n <= 10^8
    // independent values a common run of 72 bits has probability < 1e-5)
    {
        let raw: Vec<u128> = all_salts.iter().filter_map(|s| model::b64d(s).ok()).filter(|b| b.len() >= 16).map(|b| u128::from_be_bytes(b[..16].try_into().unwrap())).collect();
        for (what, key) in [("prefix", 0u32), ("suffix", 1)] {
            let mut v: Vec<u128> = raw.iter().map(|x| if key == 0 { *x } else { x.reverse_bits() }).collect();
            v.sort_unstable();
            let mut worst = 0u32;
            let mut ex = (0u128, 0u128);
            for w in v.windows(2) {
                if w[0] != w[1] {
                    let common = (w[0] ^ w[1]).leading_zeros();
                    if common > worst {
                        worst = common;
                        ex = (w[0], w[1]);
                    }
                }
            }
            l.max(&format!("salts.longest-common-{what}-bits"), worst as u64);
            if worst >= 72 {
                l.violate(Violation {
                    subcheck: "salts-related".into(),
                    class: "whole-run".into(),
                    observed: format!("two different salts share a {worst}-bit {what}"),
                    case: 0,
                    detail: json!({"a": format!("{:032x}", if key == 0 { ex.0 } else { ex.0.reverse_bits() }), "b": format!("{:032x}", if key == 0 { ex.1 } else { ex.1.reverse_bits() }), "salts": raw.len()}),
                });
            }
        }
    }
    // per-bit balance of the first 16 salt bytes
    let mut bits = [0u64; 128];
    let mut n = 0u64;
    for s in &all_salts {
        if let Ok(b) = model::b64d(s) {
            if b.len() >= 16 {
                n += 1;
                for i in 0..128 {
                    if b[i / 8] >> (i % 8) & 1 == 1 {
                        bits[i] += 1;
                    }
                }
            }
        }
    }
    // every byte value occurs (over >= 50 000 salts each value is expected thousands of times)
    if n >= 50_000 {
        let mut hist = [0u64; 256];
        for s in &all_salts {
            if let Ok(b) = model::b64d(s) {
                for x in b.iter().take(16) {
                    hist[*x as usize] += 1;
                }
            }
        }
        let missing: Vec<usize> = (0..256).filter(|v| hist[*v] == 0).collect();
        let expected = (n * 16) as f64 / 256.0;
        let worst = hist.iter().map(|c| ((*c as f64) - expected).abs() / expected.sqrt()).fold(0.0f64, f64::max);
        l.max("salts.byte-values-seen", (256 - missing.len()) as u64);
        if !missing.is_empty() || worst > 10.0 {
            l.violate(Violation {
                subcheck: "salt-bits-unbalanced".into(),
                class: "whole-run".into(),
                observed: if missing.is_empty() { format!("a byte value deviates {worst:.1} sigma from its expected frequency") } else { format!("byte value(s) {missing:?} never occur in {} salt bytes", n * 16) },
                case: 0,
                detail: json!({"salts": n, "missing_byte_values": missing, "worst_sigma": worst}),
            });
        }
    }
    let mut bit_info = json!(null);
    if n >= 1000 {
        let nn = n as f64;
        let sigma = nn.sqrt() / 2.0;
        let (worst_i, worst) = bits.iter().enumerate().map(|(i, b)| (i, ((*b as f64) - nn / 2.0).abs() / sigma)).fold((0, 0.0), |a, b| if b.1 > a.1 { b } else { a });
        let total: u64 = bits.iter().sum();
        let pooled = ((total as f64) - 64.0 * nn).abs() / ((128.0 * nn).sqrt() / 2.0);
        bit_info = json!({"salts": n, "worst_bit": worst_i, "worst_deviation_sigma": (worst * 100.0).round() / 100.0, "pooled_deviation_sigma": (pooled * 100.0).round() / 100.0});
        if worst > 8.0 || pooled > 8.0 {
            l.violate(Violation {
                subcheck: "salt-bits-unbalanced".into(),
                class: "whole-run".into(),
                observed: "a salt bit position deviates more than 8 sigma from 1/2".into(),
                case: 0,
                detail: bit_info.clone(),
            });
        }
    } else if ctx.only_case.is_none() {
        inconclusive.push(format!("only {n} salts of >= 16 bytes harvested; bit balance not judged"));
    }
    l.samples.push((0, runs[0].clone()));
    l.samples.push((1, runs[runs.len() - 1].clone()));
    if let Some(s) = all_salts.first() {
        l.samples.push((2, json!({"a_salt": s, "a_decoy_digest": all_decoys.first()})));
    }
    let mut rep = Report::new(
        "exploration",
        "20 runs = threads {1,2,4,8,16} x ownership pattern {one issuer per thread, fresh issuer per credential, fresh thread per \
         credential, issuers handed from thread to thread}, same / different claims and ES256/EdDSA/HS256 alternating; every credential \
         is issued with AllLevels + decoys; all salts and all decoy digests of the whole run are compared pairwise; per-bit frequency \
         over all salts. evaluations = credentials issued. Distinct = (threads, pattern, same-claims, alg) schedules; all are \
         non-trivial (each contains >= 2 salts).",
        l,
    );
    rep.inconclusive = inconclusive;
    rep.extra.insert("runs".into(), json!(runs));
    rep.extra.insert("bit_balance".into(), bit_info);
    for (k, v) in leg_info {
        rep.extra.insert(k, v);
    }
    rep.assumptions = vec![
        "\"unpredictable\" cannot be observed; length, uniqueness across threads/instances and absence of fixed bits are decided, which is what the quantifier states".into(),
    ];
    rep.floor("salts", 100_000);
    rep.floor("decoy-digests", 50_000);
    rep.floor("issuances.overlapping-with-another-thread", 100);
    if ctx.tier == Tier::Thorough && ctx.only_case.is_none() && leg.is_empty() {
        crate::legs::tsan_leg(ctx, &mut rep);
    }
    rep
}
