//! C15 — a holder can narrow an existing presentation without the original SD-JWT.
//! History monitor: chains sel1 >= sel2 >= .. >= selk; each step is done (a) via a new holder fed
//! with the previous presentation and (b) directly from the issued SD-JWT; both must give the
//! model's disclosure set and, after verification, the model's view.

use crate::api::{self, Outcome, Resolver};
use crate::evidence::{run_cases, Ctx, Local, Report, Violation};
use crate::gen::{self, Profile, SelKind};
use crate::keys;
use crate::model::{self, Parts};
use crate::mon::c06::check_presentation;
use crate::pipeline::{self, Config};
use crate::rng::Rng;
use serde_json::{json, Value};
use std::collections::BTreeSet;

const STREAM: u64 = 15;

pub fn run(ctx: &Ctx) -> Report {
    let n = ctx.cases(60_000, 3_000_000);
    let local = run_cases(ctx, n, |case, l| one_case(ctx, case, l));
    let mut rep = Report::new(
        "exploration",
        "case i: one issued credential (array-heavy profiles over-weighted, configuration as C01) and one chain of up to 4 selections, \
         each obtained from the previous by switching arbitrary nodes to false/null/absent/true or shortening arrays; every step is \
         presented via the previous presentation and directly, and both are verified. evaluations = narrowing steps. Distinct = \
         (claims shape, SD positions, per-step disclosed positions, format); non-trivial = the step's disclosure set is a proper \
         subset of the previous one or leaves an array placeholder without its disclosure.",
        local,
    );
    rep.assumptions = vec!["narrowing only ever deselects, so D(s_i) is a subset of D(s_{i-1}) by construction of the generator".into()];
    rep.floor("step.equal", 1000);
    rep.floor("step.proper-subset", 500);
    rep.floor("step.placeholder-without-disclosure", 100);
    rep.floor("format.Compact", 100);
    rep.floor("format.JSON", 100);
    rep
}

fn one_case(ctx: &Ctx, case: u64, l: &mut Local) {
    let mut r = Rng::for_case(ctx.seed, STREAM, case);
    let mut cfg = Config::from_index(case);
    if r.chance(50) {
        cfg.profile = *r.pick(&[Profile::ArraysOfArrays, Profile::ObjectsInArrays, Profile::Wide]);
    }
    let s = pipeline::gen_scenario(ctx, &mut r, cfg.clone());
    let class = cfg.profile.name();
    let base_input = || json!({"config": cfg.describe(), "claims": s.u, "strategy": s.strat.describe()});
    let issued = match pipeline::issue_scenario(&s) {
        Ok(i) if i.loc.complaints.is_empty() => i,
        _ => {
            l.count("skipped.issue");
            return;
        }
    };
    l.count(&format!("format.{}", cfg.fmt.name()));
    let jwk = cfg.holder.map(|(a, i)| keys::holder_jwk_json_canonical(a, i));
    let all = gen::all_paths(&s.u);
    let pos = |set: &BTreeSet<gen::Path>| -> u64 {
        let mut h = 0u64;
        for (i, p) in all.iter().enumerate() {
            if set.contains(p) {
                h = crate::rng::mix(h ^ (i as u64 + 1));
            }
        }
        h
    };
    if case % 32 == 11 {
        // two DIFFERENT presentations of one credential that agree in the number and in the total
        // length of their disclosures; a holder of each narrows it further
        let claims = json!({"iss": "https://issuer.example/A", "exp": api::now() + 7200, "aa": 11, "bb": 22, "cc": 33, "dd": 44});
        let strat = gen::gen_strategy(&mut r, &claims, gen::StratKind::TopLevel);
        let mut issuer = api::new_issuer(cfg.alg, 0, true);
        if let Outcome::Ok(sd) = api::issue(&mut issuer, &claims, &strat, None, false, cfg.fmt) {
            let mk = |sel: Value| -> Option<String> { api::holder_new(&sd, cfg.fmt).ok().and_then(|mut h| api::present(&mut h, &sel, None).ok()) };
            if let (Some(p1), Some(p2)) = (mk(json!({"aa": true, "bb": true})), mk(json!({"cc": true, "dd": true}))) {
                for (pres, keep, want) in [(&p1, "aa", 11), (&p2, "cc", 33), (&p1, "bb", 22), (&p2, "dd", 44)] {
                    l.evals += 1;
                    let mut sel = serde_json::Map::new();
                    sel.insert(keep.to_string(), json!(true));
                    let out = match api::holder_new(pres, cfg.fmt) {
                        Outcome::Ok(mut h) => match api::present(&mut h, &Value::Object(sel), None) {
                            Outcome::Ok(p) => api::verify(&p, &Resolver::Fixed(cfg.alg, 0), None, cfg.fmt).out,
                            o => o.map(|_| Value::Null),
                        },
                        o => o.map(|_| Value::Null),
                    };
                    match out {
                        Outcome::Ok(v) if v.get(keep) == Some(&json!(want)) && v.as_object().map(|o| o.len()) == Some(3) => l.count("twin-presentations.narrowed"),
                        other => {
                            l.violate(Violation {
                                subcheck: "narrowing-fails".into(),
                                class: "two presentations of one credential with equally many, equally long disclosures".into(),
                                observed: other.panic_signature().unwrap_or_else(|| other.describe()).chars().take(200).collect(),
                                case,
                                detail: json!({"claims": claims, "kept": keep, "format": cfg.fmt.name()}),
                            });
                            break;
                        }
                    }
                }
            }
        }
    }
    // first selection: dense, so there is something to narrow
    let first_kind = if r.chance(30) { SelKind::Everything } else { SelKind::RandomDense };
    let mut cur_sel = gen::gen_selection(&mut r, &s.u, first_kind);
    let (_, mut cur_d) = model::view(&s.u, &cur_sel, &s.strat.sd);
    let mut holder = match api::holder_new(&issued.sd_jwt, cfg.fmt) {
        Outcome::Ok(h) => h,
        _ => return,
    };
    let mut cur_pres = match api::present(&mut holder, &cur_sel, None) {
        Outcome::Ok(p) => p,
        _ => {
            l.count("skipped.first-presentation");
            return;
        }
    };
    let steps = 1 + r.below(3);
    let first_sel = cur_sel.clone();
    let first_d = cur_d.clone();
    l.sample(case, || json!({"base": base_input(), "first_selection": cur_sel}));
    for step in 0..steps {
        let sel2 = gen::narrow_selection(&mut r, &cur_sel);
        let (exp_view, d2) = model::view(&s.u, &sel2, &s.strat.sd);
        let exp_view = model::with_cnf(exp_view, jwk.as_ref());
        l.evals += 1;
        let input = || json!({"base": base_input(), "step": step, "previous_selection": cur_sel, "selection": sel2, "previous_presentation": cur_pres});
        if !d2.is_subset(&cur_d) {
            // generator invariant; never expected
            l.count("generator.not-a-subset");
            return;
        }
        let proper = d2.len() < cur_d.len();
        // an array element whose disclosure is absent from the previous presentation
        let placeholder_gap = s.strat.sd.iter().any(|p| matches!(p.last(), Some(gen::Step::I(_))) && !cur_d.contains(p) && {
            // parent reachable in the previous presentation
            (1..p.len()).all(|n| !s.strat.sd.contains(&p[..n].to_vec()) || cur_d.contains(&p[..n].to_vec()))
        });
        if proper {
            l.count("step.proper-subset");
        }
        if placeholder_gap {
            l.count("step.placeholder-without-disclosure");
        }
        if proper || placeholder_gap {
            l.distinct(crate::rng::mix(gen::shape_fingerprint(&s.u) ^ pos(&s.strat.sd).rotate_left(13) ^ pos(&cur_d).rotate_left(29) ^ pos(&d2).rotate_left(41) ^ cfg.fmt as u64));
        }
        // (a) via the previous presentation
        let via = match api::holder_new(&cur_pres, cfg.fmt) {
            Outcome::Ok(mut h) => {
                // in odd cases the holder built from the presentation first makes ANOTHER narrowing
                // (result discarded) and then the one under test: the holder is reusable
                if case % 2 == 1 {
                    let other = gen::narrow_selection(&mut r, &cur_sel);
                    let _ = api::present(&mut h, &other, None);
                    l.count("step.via-holder-reused");
                }
                api::present(&mut h, &sel2, None)
            }
            other => other.map(|_| String::new()),
        };
        // (b) directly
        let direct = match api::holder_new(&issued.sd_jwt, cfg.fmt) {
            Outcome::Ok(mut h) => api::present(&mut h, &sel2, None),
            other => other.map(|_| String::new()),
        };
        let direct = match direct {
            Outcome::Ok(p) => p,
            _ => {
                l.count("skipped.direct-failed");
                return;
            }
        };
        let via = match via {
            Outcome::Ok(p) => p,
            other => {
                l.violate(Violation {
                    subcheck: "narrowing-fails".into(),
                    class: class.into(),
                    observed: other.panic_signature().unwrap_or_else(|| other.describe()),
                    case,
                    detail: json!({"input": input(), "history": api::history()}),
                });
                return;
            }
        };
        let set_of = |p: &str| -> Option<BTreeSet<String>> { Parts::parse(cfg.fmt, p).ok().map(|x| x.disclosures.into_iter().collect()) };
        if let Err((sub, obs, extra)) = check_presentation(cfg.fmt, &via, &issued, &d2, false) {
            l.violate(Violation {
                subcheck: format!("via:{sub}"),
                class: class.into(),
                observed: obs,
                case,
                detail: json!({"input": input(), "extra": extra, "via": via, "direct": direct}),
            });
            return;
        }
        if set_of(&via) != set_of(&direct) {
            l.violate(Violation {
                subcheck: "via-differs-from-direct".into(),
                class: class.into(),
                observed: "disclosure sets differ".into(),
                case,
                detail: json!({"input": input(), "via": via, "direct": direct}),
            });
            return;
        }
        let mut claims: Vec<Value> = vec![];
        for p in [&via, &direct] {
            match api::verify(p, &Resolver::Fixed(cfg.alg, 0), None, cfg.fmt).out {
                Outcome::Ok(v) => claims.push(v),
                other => {
                    l.violate(Violation {
                        subcheck: "narrowed-presentation-rejected".into(),
                        class: class.into(),
                        observed: other.panic_signature().unwrap_or_else(|| other.describe()),
                        case,
                        detail: json!({"input": input(), "presentation": p, "history": api::history()}),
                    });
                    return;
                }
            }
        }
        if claims[0] != claims[1] || claims[0] != exp_view {
            l.violate(Violation {
                subcheck: "narrowed-claims-differ".into(),
                class: class.into(),
                observed: "claims after narrowing differ from the direct selection / the model".into(),
                case,
                detail: json!({"input": input(), "via_claims": claims[0], "direct_claims": claims[1], "model": exp_view}),
            });
            return;
        }
        l.count("step.equal");
        cur_pres = via;
        cur_sel = sel2;
        cur_d = d2;
        // the converse: a holder that only has the narrowed presentation cannot WIDEN it again — asked
        // for the first (larger) selection it fails or emits nothing beyond what it received, also
        // when a holder for the full SD-JWT (same issuer-signed JWT) was opened on this thread just before
        if cur_d.len() < first_d.len() {
            let _ = api::holder_new(&issued.sd_jwt, cfg.fmt);
            if let Outcome::Ok(mut h) = api::holder_new(&cur_pres, cfg.fmt) {
                l.evals += 1;
                match api::present(&mut h, &first_sel, None) {
                    Outcome::Ok(p) => {
                        let got = set_of(&p).unwrap_or_default();
                        let had = set_of(&cur_pres).unwrap_or_default();
                        if got.is_subset(&had) {
                            l.count("widening.nothing-beyond-received");
                        } else {
                            l.violate(Violation {
                                subcheck: "narrowed-holder-emits-disclosures-it-never-received".into(),
                                class: class.into(),
                                observed: format!("{} disclosure(s) that were not in the presentation the holder was built from", got.difference(&had).count()),
                                case,
                                detail: json!({"base": base_input(), "narrowed_presentation": cur_pres, "selection": first_sel, "result": p}),
                            });
                            return;
                        }
                    }
                    Outcome::Err(_) => l.count("widening.refused"),
                    pn @ Outcome::Panic(..) => {
                        l.violate(Violation { subcheck: "panic".into(), class: class.into(), observed: pn.panic_signature().unwrap(), case, detail: json!({"base": base_input()}) });
                        return;
                    }
                }
            }
        }
    }
}
