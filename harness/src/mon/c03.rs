//! C03 — presented disclosures cannot add, alter or relocate claims.
//! For a genuine issuer-signed JWT and a hand-assembled disclosure list L the verifier must
//! either reject or return exactly V(U, SD, D_L), D_L = SD paths whose byte-identical genuine
//! disclosure is in L together with those of all hidden ancestors.

use crate::api::{self, Outcome, Resolver};
use crate::evidence::{run_cases, Ctx, Local, Report, Tier, Violation};
use crate::gen::{self, path_str, Path, StratKind};
use crate::keys;
use crate::model::{self, b64d, b64e, Parts};
use crate::pipeline::{self, Config};
use crate::rng::Rng;
use serde_json::{json, Value};
use std::collections::BTreeSet;

const STREAM: u64 = 3;

pub fn run(ctx: &Ctx) -> Report {
    let n = ctx.cases(4_000, 80_000);
    let local = run_cases(ctx, n, |case, l| one_case(ctx, case, l));
    let mut rep = Report::new(
        "fault_enumeration",
        "case = one issued credential (AllLevels / Custom / TopLevel, decoys on/off, both formats, with and without holder key) x \
         disclosure-list attacks: all subsets (<=6 disclosures quick / <=8 thorough, else 16 / 64 random subsets), permutations, \
         every edit kind (salt, name, value, whitespace, escapes, padding, truncation) on every disclosure, forged 2-/3-element \
         disclosures naming iss/exp/cnf/existing/new members, a sibling credential's disclosures, duplicates, garbage. \
         evaluations = verifier calls on hand-assembled presentations. Distinct = (credential fingerprint, attack class, target \
         index); non-trivial = list differs from the complete genuine list.",
        local,
    );
    rep.assumptions = vec![
        "Err is always admissible (the property says 'either rejects or ...')".into(),
        "path->disclosure map from the harness locator (cross-checked by C05)".into(),
    ];
    for c in ["subset", "permutation", "edit-salt", "edit-name", "edit-value", "reserialize-whitespace", "reserialize-escapes", "repad", "wrap", "padded", "truncate", "forged", "sibling", "duplicate", "garbage"] {
        rep.floor(&format!("class.{c}"), 50);
    }
    rep.floor("outcome.exact-view", 5_000);
    rep.floor("control.accepted", 500);
    rep
}

fn one_case(ctx: &Ctx, case: u64, l: &mut Local) {
    let mut r = Rng::for_case(ctx.seed, STREAM, case);
    let mut cfg = Config::from_index(case);
    if matches!(cfg.strat, StratKind::NoSD) {
        cfg.strat = StratKind::AllLevels;
    }
    let s = pipeline::gen_scenario(ctx, &mut r, cfg.clone());
    let issued = match pipeline::issue_scenario(&s) {
        Ok(i) if i.loc.complaints.is_empty() => i,
        Ok(i) => {
            // the locator cannot map paths to disclosures (C05 reports why); the one thing that can
            // still be asserted without the map: the complete genuine list gives Err or exactly U
            l.count("locator-complaints.control-only");
            let jwk = cfg.holder.map(|(a, i)| keys::holder_jwk_json_canonical(a, i));
            let v = api::verify(&i.sd_jwt, &Resolver::Fixed(cfg.alg, 0), None, cfg.fmt);
            l.evals += 1;
            match v.out {
                Outcome::Ok(c) if c != model::with_cnf(s.u.clone(), jwk.as_ref()) => {
                    let (at, e, g, _) = model::first_diff(&model::with_cnf(s.u.clone(), jwk.as_ref()), &c).unwrap_or_default();
                    l.violate(Violation {
                        subcheck: "wrong-view".into(),
                        class: "control".into(),
                        observed: "all genuine disclosures presented, verifier returned claims other than the original".into(),
                        case,
                        detail: json!({"config": cfg.describe(), "claims": s.u, "strategy": s.strat.describe(), "at": at, "expected_there": e, "got_there": g}),
                    });
                }
                p @ Outcome::Panic(..) => l.violate(Violation { subcheck: "panic".into(), class: "control".into(), observed: p.panic_signature().unwrap(), case, detail: json!({"claims": s.u}) }),
                _ => {}
            }
            return;
        }
        Err(_) => {
            l.count("skipped.issue");
            return;
        }
    };
    let jwk = cfg.holder.map(|(a, i)| keys::holder_jwk_json_canonical(a, i));
    let genuine: Vec<String> = issued.parts.disclosures.clone();
    let shape = gen::shape_fingerprint(&s.u) ^ cfg.bits().rotate_left(40);
    let base_input = || json!({"config": cfg.describe(), "claims": s.u, "strategy": s.strat.describe(), "genuine_disclosures": issued.by.values().map(|d| d.text.clone()).collect::<Vec<_>>()});
    l.sample(case, || json!({"config": cfg.describe(), "claims": s.u, "strategy": s.strat.describe(), "disclosures": genuine.len()}));
    // in a quarter of the cases the resolver itself verifies another (small, honest) presentation on
    // the same thread before it hands out the key; that must not disturb the outer verification
    let resolver = if case % 4 == 3 {
        let inner_claims = json!({"iss": "https://issuer.example/A", "exp": api::now() + 3600, "trusted": ["x", {"y": 1}], "z": {"w": null}});
        let inner_strat = gen::gen_strategy(&mut r, &inner_claims, StratKind::AllLevels);
        let mut inner_issuer = api::new_issuer(cfg.alg, 0, true);
        match api::issue(&mut inner_issuer, &inner_claims, &inner_strat, None, true, cfg.fmt) {
            Outcome::Ok(sd) => {
                l.count("resolver.re-entrant");
                Resolver::Reentrant(cfg.alg, 0, sd, cfg.fmt)
            }
            _ => Resolver::Fixed(cfg.alg, 0),
        }
    } else {
        Resolver::Fixed(cfg.alg, 0)
    };

    // expected view for an arbitrary list
    // (per hidden claim, once: its own disclosure and those of its hidden ancestors, as indices into the list
    // of located disclosures — a hidden array of thousands of elements is ONE very long string that must not
    // be hashed again for each of its elements)
    let id_of: std::collections::HashMap<&String, usize> = issued.loc.map.values().enumerate().map(|(i, d)| (d, i)).collect();
    let chains: Vec<(&Path, usize, Option<Vec<usize>>)> = issued
        .loc
        .map
        .iter()
        .map(|(p, d)| {
            let mut ancs: Option<Vec<usize>> = Some(vec![]);
            for i in 1..p.len() {
                let anc: Path = p[..i].to_vec();
                if s.strat.sd.contains(&anc) {
                    match (issued.loc.map.get(&anc).and_then(|ad| id_of.get(ad)), ancs.as_mut()) {
                        (Some(ad), Some(v)) => v.push(*ad),
                        _ => ancs = None,
                    }
                }
            }
            (p, id_of[d], ancs)
        })
        .collect();
    let expected_for = |list: &[String]| -> (Value, BTreeSet<Path>) {
        let mut present = vec![false; id_of.len()];
        for d in list {
            if let Some(i) = id_of.get(d) {
                present[*i] = true;
            }
        }
        let dl: BTreeSet<Path> = chains
            .iter()
            .filter(|(_, d, ancs)| present[*d] && ancs.as_ref().map(|a| a.iter().all(|x| present[*x])).unwrap_or(false))
            .map(|(p, _, _)| (*p).clone())
            .collect();
        (model::with_cnf(model::view_by_set(&s.u, &s.strat.sd, &dl), jwk.as_ref()), dl)
    };
    let run = |l: &mut Local, class: &str, target: u64, list: &[String]| -> Option<Outcome<Value>> {
        let parts = Parts {
            jwt: issued.parts.jwt.clone(),
            disclosures: list.to_vec(),
            kb: None,
        };
        if !parts.compact_representable() && cfg.fmt == crate::model::Fmt::Compact {
            l.count("skipped.not-compact-representable");
            return None;
        }
        let pres = parts.encode(cfg.fmt, 0)?;
        let (expected, dl) = expected_for(list);
        let v = api::verify(&pres, &resolver, None, cfg.fmt);
        l.evals += 1;
        l.count(&format!("class.{class}"));
        if list != genuine.as_slice() {
            l.distinct(crate::rng::mix(shape ^ gen::hash_str(class) ^ (target << 8) ^ (dl.len() as u64)));
        }
        match &v.out {
            Outcome::Err(_) => {
                l.count("outcome.rejected");
                l.count(&format!("class.{class}.rejected"));
            }
            Outcome::Ok(c) => {
                if *c == expected {
                    l.count("outcome.exact-view");
                    l.count(&format!("class.{class}.exact-view"));
                } else {
                    let (at, e, g, _) = model::first_diff(&expected, c).unwrap_or_default();
                    l.violate(Violation {
                        subcheck: "wrong-view".into(),
                        class: class.into(),
                        observed: "verifier returned claims other than V(U,SD,D_L)".into(),
                        case,
                        detail: json!({"input": base_input(), "list": list.iter().map(|d| b64d(d).ok().and_then(|b| String::from_utf8(b).ok()).unwrap_or_else(|| format!("<raw:{d}>"))).collect::<Vec<_>>(),
                                       "at": at, "expected_there": e, "got_there": g, "expected": expected, "got": c,
                                       "D_L": dl.iter().map(path_str).collect::<Vec<_>>()}),
                    });
                }
            }
            p @ Outcome::Panic(..) => l.violate(Violation {
                subcheck: "panic".into(),
                class: class.into(),
                observed: p.panic_signature().unwrap(),
                case,
                detail: json!({"input": base_input(), "list": list}),
            }),
        }
        Some(v.out)
    };

    // control: complete genuine list -> original claims
    match run(l, "control", 0, &genuine) {
        Some(Outcome::Ok(_)) => l.count("control.accepted"),
        Some(Outcome::Err(e)) => {
            l.violate(Violation { subcheck: "control-rejected".into(), class: "control".into(), observed: format!("Err({e})"), case, detail: json!({"input": base_input()}) });
            return;
        }
        _ => return,
    }
    let n = genuine.len();
    // subsets
    let max_all = if ctx.tier == Tier::Quick { 6 } else { 8 };
    if n <= max_all {
        for mask in 0u32..(1 << n) {
            let list: Vec<String> = (0..n).filter(|i| mask >> i & 1 == 1).map(|i| genuine[i].clone()).collect();
            run(l, "subset", mask as u64, &list);
        }
        l.count("subsets.exhaustive-credentials");
    } else {
        for k in 0..(if ctx.tier == Tier::Quick { 16 } else { 64 }) {
            let pct = *r.pick(&[20, 50, 80]);
            let list: Vec<String> = genuine.iter().filter(|_| r.chance(pct)).cloned().collect();
            run(l, "subset", k, &list);
        }
    }
    // permutations: outcome must additionally be unchanged
    for k in 0..(if ctx.tier == Tier::Quick { 3 } else { 8 }) {
        let base: Vec<String> = if k % 2 == 0 { genuine.clone() } else { genuine.iter().filter(|_| r.chance(60)).cloned().collect() };
        if base.len() < 2 {
            continue;
        }
        let mut perm = base.clone();
        r.shuffle(&mut perm);
        if perm == base {
            perm.reverse();
        }
        if perm == base {
            continue;
        }
        let a = run(l, "permutation-base", k, &base);
        let b = run(l, "permutation", k, &perm);
        if let (Some(a), Some(b)) = (a, b) {
            let same = match (&a, &b) {
                (Outcome::Ok(x), Outcome::Ok(y)) => x == y,
                (Outcome::Err(_), Outcome::Err(_)) => true,
                _ => false,
            };
            if !same {
                l.violate(Violation { subcheck: "order-dependence".into(), class: "permutation".into(), observed: format!("{} vs {}", a.class(), b.class()), case, detail: json!({"input": base_input(), "base": base, "permuted": perm}) });
            } else {
                l.count("permutation.same-outcome");
            }
        }
    }
    // single-disclosure edits on every disclosure (credentials with hundreds of disclosures: on the
    // first 24 and 8 random ones, so that one huge credential does not eat the budget)
    // (and of a credential with more than 500 disclosures — every run costs tens of milliseconds there — the
    // first 4 and 4 random ones)
    let edit_targets: Vec<usize> = if genuine.len() <= 32 {
        (0..genuine.len()).collect()
    } else if genuine.len() <= 500 {
        (0..24).chain((0..8).map(|_| r.usize(genuine.len()))).collect()
    } else {
        (0..4).chain((0..4).map(|_| r.usize(genuine.len()))).collect()
    };
    for (i, d) in genuine.iter().enumerate().filter(|(i, _)| edit_targets.contains(i)) {
        let text = match b64d(d).ok().and_then(|b| String::from_utf8(b).ok()) {
            Some(t) => t,
            None => continue,
        };
        let dec: Value = match serde_json::from_str(&text) {
            Ok(v) => v,
            Err(_) => continue,
        };
        let arr = dec.as_array().cloned().unwrap_or_default();
        let mut variants: Vec<(&str, String)> = vec![];
        {
            let mut a = arr.clone();
            a[0] = json!("forged-salt");
            variants.push(("edit-salt", b64e(Value::Array(a).to_string().as_bytes())));
        }
        if arr.len() == 3 {
            let mut a = arr.clone();
            a[1] = json!(*r.pick(&["EVILNAME", "iss", "exp", "cnf", "_sd_alg"]));
            variants.push(("edit-name", b64e(Value::Array(a).to_string().as_bytes())));
        }
        {
            let mut a = arr.clone();
            let li = a.len() - 1;
            a[li] = json!("EVIL-VALUE");
            variants.push(("edit-value", b64e(Value::Array(a).to_string().as_bytes())));
        }
        variants.push(("reserialize-whitespace", b64e(serde_json::to_string_pretty(&dec).unwrap().as_bytes())));
        variants.push(("reserialize-whitespace", b64e(format!(" {text}").as_bytes())));
        variants.push(("reserialize-whitespace", b64e(format!("{text}\n").as_bytes())));
        // escape the first ASCII letter inside the text as \u00XX (same JSON value, different bytes)
        if let Some(pos) = text.char_indices().find(|(i, c)| c.is_ascii_alphabetic() && *i > 2 && text[..*i].matches('"').count() % 2 == 1 && !text[..*i].ends_with('\\')).map(|(i, _)| i) {
            let c = text.as_bytes()[pos];
            let esc = format!("{}\\u{:04x}{}", &text[..pos], c, &text[pos + 1..]);
            if serde_json::from_str::<Value>(&esc).ok().as_ref() == Some(&dec) {
                variants.push(("reserialize-escapes", b64e(esc.as_bytes())));
            }
        }
        variants.push(("repad", format!("{d}=")));
        variants.push(("repad", format!("{d}==")));
        // the genuine string wrapped in blanks / line breaks / invisible characters (pasted tokens)
        for (pre, post) in [(" ", ""), ("", " "), ("\n", ""), ("", "\r\n"), ("\t", "\t"), ("", "\u{a0}"), ("\u{feff}", ""), ("", "\u{200b}"), ("", "\u{0}")] {
            variants.push(("wrap", format!("{pre}{d}{post}")));
        }
        // the same bytes in the standard base64 alphabet / percent-escaped (a lenient decoder reads
        // them as the genuine disclosure; the digest of THIS string is not in the payload)
        if d.contains('-') || d.contains('_') {
            variants.push(("wrap", d.replace('-', "+").replace('_', "/")));
        }
        variants.push(("wrap", format!("%{:02X}{}", d.as_bytes()[0], &d[1..])));
        // JSON form only: ONE list entry that holds the compact separator next to the genuine text (in the
        // compact form this would simply be the genuine disclosure and an empty one)
        if cfg.fmt == model::Fmt::Json {
            variants.push(("wrap", format!("{d}~")));
            variants.push(("wrap", format!("~{d}")));
            variants.push(("wrap", format!("{d}~{}", genuine[(i + 1) % n])));
        }
        variants.push(("truncate", d[..d.len() - 1].to_string()));
        if d.len() > 8 {
            variants.push(("truncate", d[..d.len() - 4].to_string()));
        }
        for (class, edited) in variants {
            if edited == *d {
                continue;
            }
            // replaced in place
            let mut list = genuine.clone();
            list[i] = edited.clone();
            run(l, class, i as u64, &list);
            // and added next to the genuine one
            if r.chance(30) {
                let mut list = genuine.clone();
                list.insert(r.usize(n + 1), edited);
                run(l, class, (i as u64) | 0x100, &list);
            }
        }
    }
    // forged disclosures appended to the complete / a partial list
    {
        let visible_name = s.u.as_object().and_then(|m| m.keys().find(|k| !["iss", "exp", "iat"].contains(&k.as_str()))).cloned().unwrap_or_else(|| "x".into());
        let mut forged: Vec<String> = vec![];
        for nm in ["iss", "exp", "cnf", "_sd_alg", "newclaim", visible_name.as_str()] {
            forged.push(b64e(json!(["salt", nm, "EVIL"]).to_string().as_bytes()));
            forged.push(b64e(json!(["salt", nm, {"jwk": keys::holder_jwk_json(keys::Alg::ES256, 1)}]).to_string().as_bytes()));
        }
        forged.push(model::evil_element_disclosure());
        forged.push(b64e(json!(["salt", {"_sd": [model::digest_of(&genuine.first().cloned().unwrap_or_default())]}]).to_string().as_bytes()));
        forged.push(b64e(json!(["salt", "nested", {"_sd": genuine.iter().map(|d| model::digest_of(d)).collect::<Vec<_>>() }]).to_string().as_bytes()));
        for (k, f) in forged.iter().enumerate() {
            let mut list = if k % 2 == 0 { genuine.clone() } else { genuine.iter().filter(|_| r.chance(50)).cloned().collect() };
            list.insert(r.usize(list.len() + 1), f.clone());
            run(l, "forged", k as u64, &list);
        }
        let mut list = genuine.clone();
        list.extend(forged.iter().cloned());
        run(l, "forged", 99, &list);
    }
    // presentations padded with well-formed but unreferenced disclosures to EXACTLY n entries
    // (thresholds at which a verifier might switch its look-up structure): same claims as without
    for n_total in [16usize, 31, 32, 33, 64, 65, 128, 256] {
        let mut list: Vec<String> = if r.chance(50) { genuine.clone() } else { genuine.iter().filter(|_| r.chance(60)).cloned().collect() };
        if list.len() > n_total {
            list.truncate(n_total);
        }
        let mut k = 0u64;
        while list.len() < n_total {
            k += 1;
            let f = if k % 2 == 0 { json!([format!("pad-salt-{case}-{k}"), format!("pad{k}"), k]) } else { json!([format!("pad-salt-{case}-{k}"), {"pad": k}]) };
            let at = r.usize(list.len() + 1);
            list.insert(at, b64e(f.to_string().as_bytes()));
        }
        run(l, "padded", n_total as u64, &list);
    }
    // a credential issued by a REUSED issuer (decoys on) right after another one: the earlier
    // credential's disclosures, presented with the later JWT, reveal nothing
    {
        let mut issuer = api::new_issuer(cfg.alg, 0, s.explicit_alg);
        if let (Ok(first), Ok(second)) = (pipeline::issue_with(&mut issuer, &s.u, &s.strat, cfg.holder, cfg.decoys, cfg.fmt), pipeline::issue_with(&mut issuer, &s.u, &s.strat, cfg.holder, true, cfg.fmt)) {
            let parts = Parts { jwt: second.parts.jwt.clone(), disclosures: first.parts.disclosures.clone(), kb: None };
            if let Some(pres) = parts.encode(cfg.fmt, 0) {
                let v = api::verify(&pres, &resolver, None, cfg.fmt);
                l.evals += 1;
                l.count("class.sibling-of-reused-issuer");
                let expected = model::with_cnf(model::view_by_set(&s.u, &s.strat.sd, &BTreeSet::new()), jwk.as_ref());
                match &v.out {
                    Outcome::Err(_) => l.count("outcome.rejected"),
                    Outcome::Ok(c) if *c == expected => l.count("outcome.exact-view"),
                    Outcome::Ok(c) => {
                        let (at, e, g, _) = model::first_diff(&expected, c).unwrap_or_default();
                        l.violate(Violation {
                            subcheck: "wrong-view".into(),
                            class: "sibling-of-reused-issuer".into(),
                            observed: "disclosures of the credential issued just before (same issuer instance) reveal claims of the next one".into(),
                            case,
                            detail: json!({"input": base_input(), "at": at, "expected_there": e, "got_there": g}),
                        });
                    }
                    p @ Outcome::Panic(..) => l.violate(Violation { subcheck: "panic".into(), class: "sibling-of-reused-issuer".into(), observed: p.panic_signature().unwrap(), case, detail: json!({"input": base_input()}) }),
                }
            }
        }
    }
    // sibling credential over the same claims
    if let Ok(sib) = pipeline::issue_scenario(&s) {
        run(l, "sibling", 0, &sib.parts.disclosures);
        let mut mixed: Vec<String> = sib.parts.disclosures.clone();
        for d in &genuine {
            if r.chance(40) {
                mixed.push(d.clone());
            }
        }
        r.shuffle(&mut mixed);
        run(l, "sibling", 1, &mixed);
    }
    // duplicates
    if n > 0 {
        for k in 0..2u64 {
            let mut list = genuine.clone();
            let i = r.usize(n);
            list.insert(r.usize(n + 1), genuine[i].clone());
            let out = run(l, "duplicate", k, &list);
            // repeating a disclosure must not change the claims returned
            if let Some(Outcome::Ok(c)) = out {
                if c != expected_for(&genuine).0 {
                    l.violate(Violation { subcheck: "duplicate-changes-claims".into(), class: "duplicate".into(), observed: "claims changed by repeating a disclosure".into(), case, detail: json!({"input": base_input()}) });
                }
            }
        }
    }
    // garbage
    for (k, g) in ["!!!", "e30", "W10", "bnVsbA", "WyJhIl0=", "", "WyJzIiwgMQ", "AAAA", "eyJfc2QiOlsiYSJdfQ", "W1tdXQ", "IiI", "NQ"].iter().enumerate() {
        let mut list = genuine.clone();
        list.insert(r.usize(n + 1), g.to_string());
        run(l, "garbage", k as u64, &list);
    }
}
