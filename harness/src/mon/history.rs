//! Process-history children, shared by C02, C04 and C09.
//!
//! `sdjwt-mon HISTORY <seed>` runs in a FRESH process: first a seed-dependent sequence of honest
//! verifications (issuer alg x holder alg x format, key binding where a holder key is bound),
//! then a fixed battery of probes whose expected verdict is known. Whatever a process verified
//! before — and in whatever order — must not change those verdicts: a process-wide cache keyed
//! too coarsely (by algorithm, by `kid`, by token hash) shows up here and nowhere else.
//! The parent (`leg`) runs N such children and judges the rows tagged with its own property.

use crate::api::{self, KbArgs, Outcome, Resolver};
use crate::evidence::{Ctx, Report, Tier, Violation};
use crate::gen::{self, StratKind};
use crate::keys::{Alg, ALL_ALGS};
use crate::model::{self, b64e, Fmt, Parts, FMTS};
use crate::rng::Rng;
use serde_json::{json, Value};

fn row(prop: &str, phase: &str, name: String, expected: &str, result: &str) -> Value {
    json!({"prop": prop, "phase": phase, "name": name, "expected": expected, "result": result})
}

fn sd_hash_of(jwt: &str, ds: &[String]) -> String {
    let mut s = jwt.to_string();
    for d in ds {
        s.push('~');
        s.push_str(d);
    }
    s.push('~');
    model::digest_of(&s)
}

pub fn child(seed: u64) {
    let mut r = Rng::for_case(seed, 0x4157, 0);
    let now = api::now();
    let claims = json!({"iss": "https://issuer.example/A", "exp": now + 7200, "iat": now - 10, "name": "x", "list": [1, 2], "o": {"a": 1, "b": [true, null]}});
    let strat = gen::gen_strategy(&mut Rng(3), &claims, StratKind::AllLevels);
    let sel = json!({"name": true, "list": [true, false], "o": {"a": true}});
    let mut rows: Vec<Value> = vec![];
    let mut order: Vec<String> = vec![];

    // ---- phase 1: a random sequence of honest verifications
    let mut warm: Vec<(Alg, Option<(Alg, usize)>, Fmt)> = vec![];
    for ia in ALL_ALGS {
        for ha in [None, Some((Alg::ES256, 0)), Some((Alg::EdDSA, 0)), Some((Alg::ES256, 1)), Some((Alg::EdDSA, 1))] {
            for f in FMTS {
                warm.push((ia, ha, f));
            }
        }
    }
    r.shuffle(&mut warm);
    let m = (seed % 7) as usize;
    for (ia, ha, f) in warm.into_iter().take(m) {
        let mut issuer = api::new_issuer(ia, 0, true);
        let res = match api::issue(&mut issuer, &claims, &strat, ha, r.chance(50), f) {
            Outcome::Ok(sd) => match api::holder_new(&sd, f) {
                Outcome::Ok(mut h) => {
                    let kb = ha.map(|hk| KbArgs { nonce: "n".into(), aud: "a".into(), alg: hk.0, key_idx: hk.1, explicit_alg: true });
                    match api::present(&mut h, &sel, kb.as_ref()) {
                        Outcome::Ok(p) => {
                            // honest presentations are verified twice (idempotence)
                            let a = api::verify(&p, &Resolver::Fixed(ia, 0), kb.as_ref().map(|_| ("a", "n")), f).out.class();
                            let b = api::verify(&p, &Resolver::Fixed(ia, 0), kb.as_ref().map(|_| ("a", "n")), f).out.class();
                            if a == b { a } else { "unstable" }
                        }
                        _ => "present-failed",
                    }
                }
                _ => "holder-failed",
            },
            _ => "issue-failed",
        };
        let name = format!("{}+{}/{}", ia.name(), ha.map(|h| format!("{}#{}", h.0.name(), h.1)).unwrap_or("noKB".into()), f.name());
        order.push(name.clone());
        for prop in ["C02", "C04", "C09"] {
            rows.push(row(prop, "warm-up", name.clone(), "ok", res));
        }
    }

    // ---- phase 2: probes
    for ia in ALL_ALGS {
        for f in FMTS {
            // C09: temporal
            for (name, exp, nbf, expected) in [
                ("valid", Some(now + 7200), None, "ok"),
                ("valid-nbf-past", Some(now + 7200), Some(now - 7200), "ok"),
                ("expired", Some(now - 7200), None, "err"),
                ("nbf-future", Some(now + 2 * 86_400), Some(now + 86_400), "err"),
                ("exp-absent", None, None, "err"),
            ] {
                let mut pl = json!({"iss": "https://issuer.example/A", "k": 1});
                if let Some(e) = exp {
                    pl["exp"] = json!(e);
                }
                if let Some(n) = nbf {
                    pl["nbf"] = json!(n);
                }
                let parts = Parts { jwt: api::sign_payload(ia, 0, &pl, None), disclosures: vec![], kb: None };
                let res = api::verify(&parts.encode(f, 0).unwrap_or_default(), &Resolver::Fixed(ia, 0), None, f).out.class();
                rows.push(row("C09", "probe", format!("{name} {} {}", ia.name(), f.name()), expected, res));
            }
            // C02: the same honest token under the right key, then under other keys, then the right one again
            let mut issuer = api::new_issuer(ia, 0, true);
            if let Outcome::Ok(sd) = api::issue(&mut issuer, &claims, &strat, None, false, f) {
                let tag = format!("{} {}", ia.name(), f.name());
                let v = |res: &Resolver| api::verify(&sd, res, None, f).out.class();
                let sequence: Vec<(&str, Resolver, &str)> = if seed % 2 == 0 {
                    vec![("right key", Resolver::Fixed(ia, 0), "ok"), ("second key of the family afterwards", Resolver::Fixed(ia, 1), "err"), ("right key again", Resolver::Fixed(ia, 0), "ok")]
                } else {
                    vec![("second key of the family first", Resolver::Fixed(ia, 1), "err"), ("right key afterwards", Resolver::Fixed(ia, 0), "ok"), ("second key again", Resolver::Fixed(ia, 1), "err")]
                };
                for (name, res, expected) in sequence {
                    rows.push(row("C02", "probe", format!("{name} {tag}"), expected, v(&res)));
                }
                for other in ALL_ALGS {
                    if other != ia {
                        rows.push(row("C02", "probe", format!("key of family {} {tag}", other.name()), "err", v(&Resolver::Fixed(other, 0))));
                    }
                }
                // tampered after an accepted verification of the original
                if let Ok(mut p) = Parts::parse(f, &sd) {
                    let n = p.jwt.len();
                    let last = p.jwt.as_bytes()[n - 2];
                    let repl = if last == b'A' { 'B' } else { 'A' };
                    p.jwt = format!("{}{}{}", &p.jwt[..n - 2], repl, &p.jwt[n - 1..]);
                    if let Some(t) = p.encode(f, 0) {
                        rows.push(row("C02", "probe", format!("signature character changed {tag}"), "err", api::verify(&t, &Resolver::Fixed(ia, 0), None, f).out.class()));
                    }
                }
            }
            // C04: two credentials whose holder keys share a kid; KB by the right / the other key
            for ha in [Alg::ES256, Alg::EdDSA] {
                let tag = format!("{} holder {} {}", ia.name(), ha.name(), f.name());
                let mut pres: Vec<Option<Parts>> = vec![];
                for hidx in 0..2usize {
                    let mut issuer = api::new_issuer(ia, 0, true);
                    let p = match api::issue(&mut issuer, &claims, &strat, Some((ha, hidx)), false, f) {
                        Outcome::Ok(sd) => match api::holder_new(&sd, f) {
                            Outcome::Ok(mut h) => api::present(&mut h, &sel, None).ok().and_then(|p| Parts::parse(f, &p).ok()),
                            _ => None,
                        },
                        _ => None,
                    };
                    pres.push(p);
                }
                for hidx in 0..2usize {
                    if let Some(p) = &pres[hidx] {
                        let kbp = |signer: usize, nonce: &str| {
                            let pl = json!({"nonce": nonce, "aud": "a", "iat": now, "sd_hash": sd_hash_of(&p.jwt, &p.disclosures)});
                            api::sign_kb(ha, signer, &pl, Some("kb+jwt"))
                        };
                        let check = |kb: Option<String>| {
                            let mut q = p.clone();
                            q.kb = kb;
                            api::verify(&q.encode(f, 0).unwrap_or_default(), &Resolver::Fixed(ia, 0), Some(("a", "n")), f).out.class()
                        };
                        rows.push(row("C04", "probe", format!("credential of key#{hidx}, KB by its own key {tag}"), "ok", check(Some(kbp(hidx, "n")))));
                        rows.push(row("C04", "probe", format!("credential of key#{hidx}, KB by the other key with the same kid {tag}"), "err", check(Some(kbp(1 - hidx, "n")))));
                        rows.push(row("C04", "probe", format!("credential of key#{hidx}, KB with another nonce {tag}"), "err", check(Some(kbp(hidx, "n2")))));
                        rows.push(row("C04", "probe", format!("credential of key#{hidx}, no KB {tag}"), "err", check(None)));
                        let mut extra = p.clone();
                        extra.disclosures.push(b64e(json!(["s", "zz", 1]).to_string().as_bytes()));
                        extra.kb = Some(kbp(hidx, "n"));
                        rows.push(row("C04", "probe", format!("credential of key#{hidx}, disclosure added after signing {tag}"), "err", api::verify(&extra.encode(f, 0).unwrap_or_default(), &Resolver::Fixed(ia, 0), Some(("a", "n")), f).out.class()));
                    }
                }
            }
        }
    }
    println!("{}", json!({"order": order, "rows": rows}));
}

/// Run the children and judge the rows of `prop`.
pub fn leg(ctx: &Ctx, rep: &mut Report, prop: &str) {
    let exe = match std::env::current_exe() {
        Ok(e) => e,
        Err(_) => return,
    };
    let n: u64 = if ctx.tier == Tier::Quick { 24 } else { 240 };
    let mut verdicts = 0u64;
    let mut orders = std::collections::BTreeSet::new();
    // children in parallel batches of 8
    let seeds: Vec<u64> = (0..n).map(|k| ctx.seed.wrapping_mul(1000).wrapping_add(k)).collect();
    for batch in seeds.chunks(8) {
        let kids: Vec<_> = batch
            .iter()
            .map(|s| std::process::Command::new(&exe).args(["HISTORY", &s.to_string()]).stdout(std::process::Stdio::piped()).stderr(std::process::Stdio::null()).spawn())
            .collect();
        for (s, kid) in batch.iter().zip(kids) {
            let v: Option<Value> = kid.ok().and_then(|c| c.wait_with_output().ok()).filter(|o| o.status.success()).and_then(|o| String::from_utf8_lossy(&o.stdout).lines().last().and_then(|l| serde_json::from_str(l).ok()));
            let v = match v {
                Some(v) => v,
                None => {
                    rep.inconclusive.push(format!("process-history child (seed {s}) did not run to completion"));
                    continue;
                }
            };
            orders.insert(v["order"].to_string());
            for row in v["rows"].as_array().cloned().unwrap_or_default() {
                if row["prop"] != prop {
                    continue;
                }
                verdicts += 1;
                rep.local.evals += 1;
                if row["expected"] != row["result"] {
                    let name = row["name"].as_str().unwrap_or("").to_string();
                    let kind: String = name.split(' ').take(6).collect::<Vec<_>>().join(" ");
                    rep.local.violate(Violation {
                        subcheck: if row["result"] == "panic" {
                            "panic".into()
                        } else if row["expected"] == "err" {
                            "accepted-in-a-process-with-history".into()
                        } else {
                            "rejected-in-a-process-with-history".into()
                        },
                        class: format!("fresh process after earlier verifications: {kind}"),
                        observed: row["result"].as_str().unwrap_or("").to_string(),
                        case: *s,
                        detail: json!({"earlier_verifications_in_this_process": v["order"], "row": row, "replay": format!("sdjwt-mon HISTORY {s}")}),
                    });
                }
            }
        }
    }
    rep.local.add("process-history.children", n);
    rep.local.add("process-history.verdicts-checked", verdicts);
    rep.local.add("process-history.distinct-orders", orders.len() as u64);
}
