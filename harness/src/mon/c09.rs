//! C09 — credentials outside their validity window are never accepted.
//! Signing oracle: the payload of an honestly issued credential is re-signed with altered
//! exp / nbf; the clock is read before and after each call and nothing is asserted within
//! 120 s of a boundary. Thorough tier adds a virtual-clock leg (LD_PRELOAD shim).

use crate::api::{self, Outcome, Resolver};
use crate::evidence::{run_cases, Ctx, Local, Report, Violation};
use crate::keys::{Alg, ALL_ALGS};
use crate::model::{Fmt, Parts, FMTS};
use crate::pipeline::{self, Config};
use crate::rng::Rng;
use serde_json::{json, Map, Value};

const STREAM: u64 = 9;
const YEAR: u64 = 31_557_600;
const Y2100: u64 = 4_102_444_800;

pub fn run(ctx: &Ctx) -> Report {
    let n = ctx.cases(2_000, 200_000);
    let local = run_cases(ctx, n, |case, l| one_case(ctx, case, l));
    let mut rep = Report::new(
        "exploration",
        "case = one honestly issued credential (C01 configuration enumeration) whose payload is re-signed by the signing oracle with \
         ~40 (exp, nbf) variants: exp absent/null/string/bool/negative/float-past/t-10y..t-120s log-spaced (must reject), exp in \
         [t+1h, 2100] with nbf absent or past (must accept), nbf in t+120s..t+10y (must reject); each verified in its format, with key \
         binding on and off for key-bound credentials. evaluations = verifier calls. Distinct = (credential, exp class, nbf class, kb); \
         non-trivial = every variant except the unmodified control.",
        local,
    );
    rep.assumptions = vec![
        "nothing is asserted within 120 s of a boundary or when the two clock readings around a call are more than 30 s apart".into(),
        "non-integer exp in the future is counted but not asserted (the property's credentials carry integer exp)".into(),
    ];
    rep.floor("must-reject.exp.rejected", 2000);
    rep.floor("must-reject.nbf.rejected", 1000);
    rep.floor("must-accept.accepted", 2000);
    rep.floor("kb.on", 200);
    rep.floor("format.Compact", 50);
    rep.floor("format.JSON", 50);
    // the virtual-clock leg is cheap (< 2 s): both tiers run it; without a C compiler / shim it
    // is skipped and recorded as such (it then decides nothing)
    if ctx.only_case.is_none() && ctx.shard.is_none() && std::env::var("VERIF_LEG").is_err() {
        vclock_leg(ctx, &mut rep);
        crate::mon::history::leg(ctx, &mut rep, "C09");
    }
    rep
}

#[derive(Clone, Debug)]
enum Expect {
    Accept,
    Reject(&'static str),
    NotAsserted,
}

fn variants(r: &mut Rng, t: u64) -> Vec<(String, Option<Value>, Option<Value>, Expect)> {
    let mut v: Vec<(String, Option<Value>, Option<Value>, Expect)> = vec![];
    let fut = |r: &mut Rng| t + 3600 + r.below(Y2100 - t - 3600);
    // exp must-reject
    v.push(("exp-absent".into(), None, None, Expect::Reject("exp")));
    v.push(("exp-null".into(), Some(Value::Null), None, Expect::Reject("exp")));
    v.push(("exp-string".into(), Some(json!(format!("{}", fut(r)))), None, Expect::Reject("exp")));
    // date-time and other textual / decorated spellings of a FUTURE instant are not numbers
    for (i, txt) in ["2099-01-01T00:00:00Z", "2099-01-01T00:00:00+00:00", "2099-12-31T23:59:59.999Z", "2099-01-01 00:00:00", "2099-01-01", "Thu, 01 Jan 2099 00:00:00 GMT",
        "4102444799", "4102444799.0", "4.1e9", "+4102444799", " 4102444799", "0xF4865700", "Infinity", "never", "", "P10Y"].iter().enumerate() {
        v.push((format!("exp-text-{i}"), Some(json!(txt)), None, Expect::Reject("exp")));
    }
    v.push(("exp-text-nbf-past".into(), Some(json!("2099-01-01T00:00:00Z")), Some(json!(t - 3600)), Expect::Reject("exp")));
    v.push(("exp-bool".into(), Some(json!(true)), None, Expect::Reject("exp")));
    v.push(("exp-false".into(), Some(json!(false)), None, Expect::Reject("exp")));
    v.push(("exp-empty-array".into(), Some(json!([])), None, Expect::Reject("exp")));
    v.push(("exp-array".into(), Some(json!([fut(r)])), None, Expect::Reject("exp")));
    v.push(("exp-object".into(), Some(json!({"v": fut(r)})), None, Expect::Reject("exp")));
    v.push(("exp-negative".into(), Some(json!(-5)), None, Expect::Reject("exp")));
    v.push(("exp-negative-large".into(), Some(json!(-(t as i64))), None, Expect::Reject("exp")));
    v.push(("exp-zero".into(), Some(json!(0)), None, Expect::Reject("exp")));
    // log-spaced past: t-120s .. t-10y
    let mut d = 120u64;
    while d < 10 * YEAR {
        v.push((format!("exp-past-{d}s"), Some(json!(t - d)), None, Expect::Reject("exp")));
        d = d * 3 + r.below(d);
    }
    v.push(("exp-past-10y".into(), Some(json!(t - 10 * YEAR)), None, Expect::Reject("exp")));
    // "round" instants: the most recent full minute / hour / UTC midnight / week boundary and the one
    // before it (day- or hour-granular leniency would show here), whenever they are >= 120 s ago
    for m in [60u64, 3600, 86_400, 604_800] {
        for k in 0..3u64 {
            let inst = t - t % m - k * m;
            if t - inst >= 120 {
                v.push((format!("exp-past-round-{m}x{k}"), Some(json!(inst)), None, Expect::Reject("exp")));
                v.push((format!("exp-past-round-{m}x{k}-minus1"), Some(json!(inst - 1)), None, Expect::Reject("exp")));
            }
            let ahead = t - t % m + (k + 1) * m;
            if ahead - t >= 120 {
                v.push((format!("nbf-future-round-{m}x{k}"), Some(json!(ahead + 10 * YEAR)), Some(json!(ahead)), Expect::Reject("nbf")));
            }
        }
    }
    // inside the guard band nothing is asserted about accept / reject, but the call must still return
    for d in [0u64, 1, 30, 59, 60, 61, 119] {
        v.push((format!("exp-near-now-minus-{d}s"), Some(json!(t - d)), None, Expect::NotAsserted));
        v.push((format!("exp-near-now-plus-{d}s"), Some(json!(t + d)), None, Expect::NotAsserted));
        v.push((format!("nbf-near-now-plus-{d}s"), Some(json!(t + 7200)), Some(json!(t + d)), Expect::NotAsserted));
    }
    // numeric nbf in the past in other spellings than an unsigned integer
    v.push(("nbf-past-float".into(), Some(json!(t + 7200)), Some(json!((t - 5000) as f64 + 0.5)), Expect::Accept));
    v.push(("nbf-past-float-integral".into(), Some(json!(t + 7200)), Some(json!((t - 86_400) as f64)), Expect::Accept));
    v.push(("exp-past-float".into(), Some(json!((t - 1000 - r.below(100_000)) as f64 + 0.5)), None, Expect::Reject("exp")));
    // an expired token stays rejected whatever nbf says
    v.push(("exp-past-nbf-past".into(), Some(json!(t - 3600)), Some(json!(t - 7200)), Expect::Reject("exp")));
    // must-accept: calendar corner instants in the future as exp (31 Dec / 29 Feb of leap years, the
    // non-leap century year 2100, the 2^31 and 2^32 second marks) — and in the past as nbf
    for (i, inst) in [1_861_876_800u64, 1_861_919_999, 1_835_395_200, 1_835_481_599, 1_988_150_400, 4_107_542_400, 4_107_456_000, 4_133_980_799, 2_147_483_647, 2_147_483_648, 4_294_967_295, 4_294_967_296, 1_830_297_600, 1_893_455_999].iter().enumerate() {
        if *inst > t + 3600 {
            v.push((format!("exp-calendar-{i}"), Some(json!(inst)), None, Expect::Accept));
        }
    }
    for (i, inst) in [951_782_400u64, 951_868_799, 1_078_012_800, 1_709_251_199, 1_735_689_599, 1_704_067_199, 68_255_999, 946_684_799, 1_582_934_400].iter().enumerate() {
        v.push((format!("nbf-calendar-{i}"), Some(json!(fut(r))), Some(json!(inst)), Expect::Accept));
    }
    // very long windows: valid since 1970 / 1990, until 2099 / 2100
    v.push(("nbf-1970-exp-2099".into(), Some(json!(4_070_908_800u64)), Some(json!(86_400u64)), Expect::Accept));
    v.push(("nbf-1990-exp-2100".into(), Some(json!(Y2100)), Some(json!(631_152_000u64)), Expect::Accept));
    v.push(("exp-plus-1h".into(), Some(json!(t + 3600)), None, Expect::Accept));
    v.push(("exp-2100".into(), Some(json!(Y2100)), None, Expect::Accept));
    for _ in 0..4 {
        v.push(("exp-future".into(), Some(json!(fut(r))), None, Expect::Accept));
    }
    let mut d = 1u64;
    while d < 10 * YEAR {
        v.push((format!("nbf-past-{d}s"), Some(json!(fut(r))), Some(json!(t - d)), Expect::Accept));
        d = d * 7 + r.below(d + 1);
    }
    v.push(("nbf-past-10y".into(), Some(json!(fut(r))), Some(json!(t - 10 * YEAR)), Expect::Accept));
    v.push(("nbf-zero".into(), Some(json!(fut(r))), Some(json!(0)), Expect::Accept));
    v.push(("exp-future-float".into(), Some(json!(fut(r) as f64 + 0.25)), None, Expect::NotAsserted));
    // nbf must-reject: t+120s .. t+10y (exp later than nbf, so only nbf is at fault)
    let mut d = 120u64;
    while d < 10 * YEAR {
        let nbf = t + d;
        v.push((format!("nbf-future-{d}s"), Some(json!((nbf + 3600).max(t + 7200))), Some(json!(nbf)), Expect::Reject("nbf")));
        d = d * 4 + r.below(d);
    }
    v.push(("nbf-future-10y".into(), Some(json!(t + 11 * YEAR)), Some(json!(t + 10 * YEAR)), Expect::Reject("nbf")));
    v.push(("nbf-future-float".into(), Some(json!(t + 2 * YEAR)), Some(json!((t + 5000) as f64 + 0.5)), Expect::Reject("nbf")));
    v
}

fn one_case(ctx: &Ctx, case: u64, l: &mut Local) {
    let mut r = Rng::for_case(ctx.seed, STREAM, case);
    let cfg = Config::from_index(case * 5 + 1);
    let fmt = cfg.fmt;
    let mut s = pipeline::gen_scenario(ctx, &mut r, cfg.clone());
    // nested members that merely share their names with the temporal claims are ordinary claims:
    // whatever they say must not move the credential's own window (they are selected below)
    let t_gen = api::now();
    s.u["membership#0;"] = json!({"exp": t_gen - 5 * YEAR, "nbf": t_gen + 5 * YEAR, "iat": t_gen + YEAR, "level": [{"exp": 1, "nbf": 4_000_000_000u64}]});
    s.strat = crate::gen::gen_strategy(&mut r, &s.u, cfg.strat);
    let issued = match pipeline::issue_scenario(&s) {
        Ok(i) => i,
        Err(_) => {
            l.count("skipped.issue");
            return;
        }
    };
    l.count(&format!("format.{}", fmt.name()));
    let t0 = api::now();
    let base: Map<String, Value> = issued.payload.as_object().cloned().unwrap_or_default();
    let mut sel = pipeline::random_selection(&mut r, &s.u);
    if let Some(o) = sel.as_object_mut() {
        // the variants remove / replace these two visible claims; a selector naming a claim that
        // no longer exists is (legitimately) an error of the holder
        o.remove("exp");
        o.remove("nbf");
        o.remove("iat");
        o.insert("membership#0;".into(), json!({"exp": true, "nbf": true, "iat": true, "level": [{"exp": true, "nbf": true}]}));
    }
    let resolver = Resolver::Fixed(cfg.alg, 0);
    l.sample(case, || json!({"config": cfg.describe(), "payload_members": base.keys().collect::<Vec<_>>(), "t": t0}));
    for (vi, (name, exp, nbf, expect)) in variants(&mut r, t0).into_iter().enumerate() {
        let mut p = base.clone();
        p.remove("exp");
        p.remove("nbf");
        // iat is not part of the validity window: whatever it says (absent, past, in the future,
        // non-numeric) must not move the two bounds
        match vi % 6 {
            0 => {}
            1 => {
                p.remove("iat");
            }
            2 => {
                p.insert("iat".into(), json!(t0 + 90 + r.below(600)));
            }
            3 => {
                p.insert("iat".into(), json!(t0 + 3600 + r.below(10 * YEAR)));
            }
            4 => {
                p.insert("iat".into(), json!(t0 - r.below(10 * YEAR)));
            }
            _ => {
                p.insert("iat".into(), json!(((t0 + 1800) as f64) + 0.5));
            }
        }
        if let Some(e) = &exp {
            p.insert("exp".into(), e.clone());
        }
        if let Some(n) = &nbf {
            p.insert("nbf".into(), n.clone());
        }
        // a revocation reference / a credential type are ordinary claims: no bearing on the window
        if (vi as u64 + case) % 4 == 1 {
            p.insert("status".into(), json!({"status_list": {"idx": 7, "uri": "https://status.example/lists/1"}}));
            p.insert("vct".into(), json!("https://credentials.example/identity_credential"));
        }
        // the header's typ (and other members) say nothing about the validity window either
        let mut hdr = json!({"alg": cfg.alg.name()});
        match (vi as u64 + case) % 12 {
            0 | 1 => {}
            2 => hdr["typ"] = json!("sd+jwt"),
            3 => hdr["typ"] = json!("dc+sd-jwt"),
            4 => hdr["typ"] = json!("vc+sd-jwt"),
            5 => hdr["typ"] = json!("application/dc+sd-jwt"),
            6 => hdr["typ"] = json!("JWT"),
            7 => hdr["typ"] = json!("DC+SD-JWT"),
            8 => {
                hdr["typ"] = json!("example+sd-jwt");
                hdr["cty"] = json!("json");
            }
            9 => hdr["kid"] = json!("k0"),
            10 => hdr["typ"] = json!("at+jwt"),
            _ => hdr["typ"] = json!("application/vc+sd-jwt"),
        }
        // nor do copies of the temporal claims in the protected header (RFC 7519 5.3 allows replicating claims
        // there): for a credential that must be refused the header announces a perfectly good window
        if matches!(expect, Expect::Reject(_)) && (vi as u64 + case / 3) % 3 == 0 {
            hdr["exp"] = json!(t0 + 7200 + r.below(YEAR));
            hdr["nbf"] = json!(t0 - 7200 - r.below(YEAR));
            if r.chance(50) {
                hdr["iat"] = json!(t0 - 60);
            }
            l.count("header-carries-a-good-window");
        }
        l.count(&format!("header-typ.{}", hdr.get("typ").and_then(Value::as_str).unwrap_or("none")));
        let jwt = api::sign_raw(&hdr, &Value::Object(p), cfg.alg.jwt(), &crate::keys::issuer_enc(cfg.alg, 0));
        let sd = Parts {
            jwt,
            disclosures: issued.parts.disclosures.clone(),
            kb: None,
        };
        let sd_str = match sd.encode(fmt, 0) {
            Some(x) => x,
            None => continue,
        };
        // presentation through the library's holder (it does not validate times)
        let kb = match cfg.holder {
            Some(h) if vi % 2 == 0 => Some(pipeline::kb_args_for(&mut r, h)),
            _ => None,
        };
        let pres = match api::holder_new(&sd_str, fmt) {
            Outcome::Ok(mut h) => match api::present(&mut h, &sel, kb.as_ref()) {
                Outcome::Ok(p) => p,
                _ => {
                    l.count("skipped.present");
                    continue;
                }
            },
            _ => {
                l.count("skipped.holder");
                continue;
            }
        };
        if kb.is_some() {
            l.count("kb.on");
        } else {
            l.count("kb.off");
        }
        // a presentation that must be refused, with a (crafted, never requested) Key Binding JWT behind it that
        // announces its own good window: the credential's window is the issuer's alone
        let pres = if kb.is_none() && matches!(expect, Expect::Reject(_)) && (vi as u64 + case / 5) % 3 == 1 {
            match Parts::parse(fmt, &pres) {
                Ok(mut parts) => {
                    let hk = cfg.holder.unwrap_or((crate::keys::Alg::ES256, 0));
                    let kbp = json!({"iat": t0, "exp": t0 + 3600 + r.below(YEAR), "nbf": t0 - 3600, "aud": "https://verifier.example", "nonce": "n-c09", "sd_hash": "AAAA"});
                    parts.kb = Some(api::sign_raw(&json!({"alg": hk.0.name(), "typ": "kb+jwt"}), &kbp, hk.0.jwt(), &crate::keys::holder_enc(hk.0, hk.1)));
                    l.count("kb-jwt-announces-a-good-window");
                    parts.encode(fmt, 0).unwrap_or(pres)
                }
                Err(_) => pres,
            }
        } else {
            pres
        };
        let before = api::now();
        let v = api::verify(&pres, &resolver, kb.as_ref().map(|k| (k.aud.as_str(), k.nonce.as_str())), fmt);
        let after = api::now();
        l.evals += 1;
        if after.saturating_sub(before) > 30 || after.saturating_sub(t0) > 60 {
            l.count("not-asserted.clock-moved");
            continue;
        }
        l.distinct(crate::rng::mix(case ^ crate::gen::hash_str(&name) ^ ((kb.is_some() as u64) << 60)));
        let detail = || json!({"config": cfg.describe(), "variant": name, "exp": exp, "nbf": nbf, "t_before": before, "t_after": after, "kb": kb.is_some(), "history": api::history()});
        let class = name.split(|c: char| c.is_ascii_digit()).next().unwrap_or("").trim_end_matches('-').to_string();
        match (&expect, &v.out) {
            (_, p @ Outcome::Panic(..)) => l.violate(Violation { subcheck: "panic".into(), class, observed: p.panic_signature().unwrap(), case, detail: detail() }),
            (Expect::Reject(which), Outcome::Err(_)) => l.count(&format!("must-reject.{which}.rejected")),
            (Expect::Reject(which), Outcome::Ok(_)) => l.violate(Violation {
                subcheck: format!("accepted-outside-window-{which}"),
                class,
                observed: "Ok".into(),
                case,
                detail: detail(),
            }),
            (Expect::Accept, Outcome::Ok(_)) => l.count("must-accept.accepted"),
            (Expect::Accept, Outcome::Err(e)) => l.violate(Violation {
                subcheck: "rejected-inside-window".into(),
                class,
                observed: format!("Err({})", e.chars().take(80).collect::<String>()),
                case,
                detail: detail(),
            }),
            (Expect::NotAsserted, o) => l.count(&format!("not-asserted.{}.{}", name, o.class())),
        }
    }
    // ---- exp absent from the signed payload but "supplied" by a referenced top-level disclosure:
    // the validity window is what the issuer SIGNED in clear; must be refused
    {
        let mut p = base.clone();
        p.remove("exp");
        p.remove("nbf");
        let fut = t0 + 7200 + r.below(YEAR);
        let d_exp = crate::model::b64e(json!(["salt-c09", "exp", fut]).to_string().as_bytes());
        let mut sdl = p.get("_sd").and_then(Value::as_array).cloned().unwrap_or_default();
        sdl.push(json!(crate::model::digest_of(&d_exp)));
        p.insert("_sd".into(), Value::Array(sdl));
        p.entry("_sd_alg").or_insert(json!("sha-256"));
        let jwt = api::sign_payload(cfg.alg, 0, &Value::Object(p), None);
        let mut ds = issued.parts.disclosures.clone();
        ds.insert(r.usize(ds.len() + 1), d_exp);
        let sd = Parts { jwt, disclosures: ds, kb: None };
        if let Some(enc) = sd.encode(fmt, 0) {
            let v = api::verify(&enc, &resolver, None, fmt);
            l.evals += 1;
            match &v.out {
                pn @ Outcome::Panic(..) => l.violate(Violation { subcheck: "panic".into(), class: "exp only as a disclosure".into(), observed: pn.panic_signature().unwrap(), case, detail: json!({"config": cfg.describe()}) }),
                Outcome::Ok(_) => l.violate(Violation {
                    subcheck: "accepted-outside-window-exp".into(),
                    class: "exp absent from the signed payload, supplied by a disclosure".into(),
                    observed: "Ok".into(),
                    case,
                    detail: json!({"config": cfg.describe(), "disclosed_exp": fut, "t": t0}),
                }),
                Outcome::Err(_) => l.count("must-reject.exp.rejected"),
            }
        }
    }
    // ---- out-of-window tokens whose (genuine) signature is written in another encoding: a fallback
    // that accepts such a signature must not skip the window either
    if cfg.alg == Alg::ES256 || case % 4 == 0 {
        use base64::Engine;
        for (name, exp, nbf) in [("expired", Some(t0 - 7200), None), ("exp-absent", None, None), ("nbf-future", Some(t0 + 2 * 86_400), Some(t0 + 86_400))] {
            let mut p = base.clone();
            p.remove("exp");
            p.remove("nbf");
            if let Some(e) = exp {
                p.insert("exp".into(), json!(e));
            }
            if let Some(n) = nbf {
                p.insert("nbf".into(), json!(n));
            }
            let jwt = api::sign_payload(cfg.alg, 0, &Value::Object(p), None);
            let segs = match crate::tamper::segments(&jwt) {
                Some(x) => x,
                None => continue,
            };
            let raw = crate::model::b64d(&segs[2]).unwrap_or_default();
            let mut sigs: Vec<String> = vec![base64::engine::general_purpose::STANDARD.encode(&raw), base64::engine::general_purpose::URL_SAFE.encode(&raw), raw.iter().map(|b| format!("{b:02x}")).collect()];
            if let Some(d) = crate::tamper::ecdsa_sig_to_der_b64(&segs[2]) {
                sigs.push(d);
            }
            for sig in sigs {
                let sd = Parts { jwt: format!("{}.{}.{}", segs[0], segs[1], sig), disclosures: issued.parts.disclosures.clone(), kb: None };
                let enc = match sd.encode(fmt, 0) {
                    Some(x) => x,
                    None => continue,
                };
                if fmt == Fmt::Compact && !sd.compact_representable() {
                    continue;
                }
                let v = api::verify(&enc, &resolver, None, fmt);
                l.evals += 1;
                match &v.out {
                    pn @ Outcome::Panic(..) => l.violate(Violation { subcheck: "panic".into(), class: format!("{name}, signature transcoded"), observed: pn.panic_signature().unwrap(), case, detail: json!({"jwt": sd.jwt}) }),
                    Outcome::Ok(_) => l.violate(Violation {
                        subcheck: format!("accepted-outside-window-{}", if name == "nbf-future" { "nbf" } else { "exp" }),
                        class: format!("{name}, genuine signature in another encoding"),
                        observed: "Ok".into(),
                        case,
                        detail: json!({"config": cfg.describe(), "jwt": sd.jwt, "t": t0}),
                    }),
                    Outcome::Err(_) => l.count(&format!("must-reject.{}.rejected", if name == "nbf-future" { "nbf" } else { "exp" })),
                }
            }
        }
    }
    // ---- issuer-signed JWTs that carry an `aud` claim and are outside their window: whatever the
    // verifier does about audiences, the window still applies
    for (name, exp, nbf) in [("expired", Some(t0 - 7200), None), ("nbf-future", Some(t0 + 2 * 86_400), Some(t0 + 86_400)), ("exp-absent", None, None)] {
        for aud in [json!("https://rp.example.org"), json!(["a", "b"]), json!([]), json!("")] {
            let mut p = base.clone();
            p.remove("exp");
            p.remove("nbf");
            p.insert("aud".into(), aud.clone());
            if let Some(e) = exp {
                p.insert("exp".into(), json!(e));
            }
            if let Some(n) = nbf {
                p.insert("nbf".into(), json!(n));
            }
            let sd = Parts { jwt: api::sign_payload(cfg.alg, 0, &Value::Object(p), None), disclosures: issued.parts.disclosures.clone(), kb: None };
            if let Some(enc) = sd.encode(fmt, 0) {
                let v = api::verify(&enc, &resolver, None, fmt);
                l.evals += 1;
                let which = if name == "nbf-future" { "nbf" } else { "exp" };
                match &v.out {
                    pn @ Outcome::Panic(..) => l.violate(Violation { subcheck: "panic".into(), class: format!("{name} with aud"), observed: pn.panic_signature().unwrap(), case, detail: json!({"aud": aud}) }),
                    Outcome::Ok(_) => l.violate(Violation { subcheck: format!("accepted-outside-window-{which}"), class: format!("{name}, issuer-signed JWT carries an aud claim"), observed: "Ok".into(), case, detail: json!({"config": cfg.describe(), "aud": aud, "t": t0}) }),
                    Outcome::Err(_) => l.count(&format!("must-reject.{which}.rejected")),
                }
            }
        }
    }
    // ---- JSON only: RFC 7797 style documents (protected header b64:false, crit:["b64"], payload member
    // holding raw JSON text, signature over header "." text) with exp negative / past / absent
    if fmt == Fmt::Json {
        for (name, expv) in [("negative", Some(json!(-5))), ("past", Some(json!(t0 - 7200))), ("absent", None), ("negative-large", Some(json!(i64::MIN)))] {
            let mut p = base.clone();
            p.remove("exp");
            p.remove("nbf");
            if let Some(e) = &expv {
                p.insert("exp".into(), e.clone());
            }
            let text = Value::Object(p.clone()).to_string();
            let hdr = crate::model::b64e(json!({"alg": cfg.alg.name(), "b64": false, "crit": ["b64"]}).to_string().as_bytes());
            let sig = jsonwebtoken::crypto::sign(format!("{hdr}.{text}").as_bytes(), &crate::keys::issuer_enc(cfg.alg, 0), cfg.alg.jwt()).unwrap_or_default();
            for payload_member in [json!(text), Value::Object(p.clone())] {
                let doc = json!({"protected": hdr, "payload": payload_member, "signature": sig, "disclosures": issued.parts.disclosures}).to_string();
                let v = api::verify(&doc, &resolver, None, fmt);
                l.evals += 1;
                match &v.out {
                    pn @ Outcome::Panic(..) => l.violate(Violation { subcheck: "panic".into(), class: format!("unencoded payload, exp {name}"), observed: pn.panic_signature().unwrap(), case, detail: json!({"document": doc}) }),
                    Outcome::Ok(_) => l.violate(Violation { subcheck: "accepted-outside-window-exp".into(), class: format!("unencoded-payload JSON document (b64:false), exp {name}"), observed: "Ok".into(), case, detail: json!({"config": cfg.describe(), "document": doc}) }),
                    Outcome::Err(_) => l.count("must-reject.exp.rejected"),
                }
            }
        }
    }
    // ---- a temporal claim written TWICE in the signed payload text (RFC 7519 §4: reject, or use the
    // lexically last one): whenever the last one is outside the window the token must be refused
    {
        let mut p = base.clone();
        p.remove("exp");
        p.remove("nbf");
        let inner = Value::Object(p).to_string();
        let inner = &inner[1..inner.len() - 1];
        let past = t0 - 3600 - r.below(YEAR);
        let fut = t0 + 7200 + r.below(YEAR);
        for (name, first, last, which, assert) in [
            ("exp", json!(fut), json!(past), "exp", true),
            ("exp", json!(past), json!(past - 5), "exp", true),
            ("exp", json!(past), json!(fut), "exp", false),
            ("exp", json!(fut), json!("never"), "exp", true),
            ("nbf", json!(t0 - 7200), json!(fut), "nbf", true),
        ] {
            let mut text = format!("{{{}:{first},{inner},{}:{last}", json!(name), json!(name));
            if name == "nbf" {
                text.push_str(&format!(",\"exp\":{}", fut + 86_400));
            }
            text.push('}');
            if serde_json::from_str::<Value>(&text).is_err() {
                continue;
            }
            let jwt = api::sign_text(&json!({"alg": cfg.alg.name()}).to_string(), &text, cfg.alg.jwt(), &crate::keys::issuer_enc(cfg.alg, 0));
            let sd = Parts { jwt, disclosures: issued.parts.disclosures.clone(), kb: None };
            let enc = match sd.encode(fmt, 0) {
                Some(x) => x,
                None => continue,
            };
            let v = api::verify(&enc, &resolver, None, fmt);
            l.evals += 1;
            match (&v.out, assert) {
                (pn @ Outcome::Panic(..), _) => l.violate(Violation { subcheck: "panic".into(), class: format!("{name} written twice"), observed: pn.panic_signature().unwrap(), case, detail: json!({"payload_text": text}) }),
                (Outcome::Ok(_), true) => l.violate(Violation {
                    subcheck: format!("accepted-outside-window-{which}"),
                    class: format!("{name} written twice in the payload, the last one outside the window"),
                    observed: "Ok".into(),
                    case,
                    detail: json!({"config": cfg.describe(), "payload_text": text, "t": t0}),
                }),
                (Outcome::Err(_), true) => l.count(&format!("must-reject.{which}.rejected")),
                (o, false) => l.count(&format!("not-asserted.{name}-twice-last-inside.{}", o.class())),
            }
        }
    }
    // ---- the same window for RSA / P-384 issuers (signing oracle only; every 8th case)
    if case % 8 == 0 {
        for an in crate::keys::EXTRA_ALGS {
            for (name, exp, nbf, expect_ok) in [
                ("valid", Some(t0 + 7200), None, true),
                ("valid-nbf-past", Some(t0 + 7200), Some(t0 - 7200), true),
                ("expired", Some(t0 - 7200), None, false),
                ("nbf-future", Some(t0 + 2 * 86_400), Some(t0 + 86_400), false),
                ("exp-absent", None, None, false),
                ("exp-string", None, None, false),
            ] {
                let mut pl = json!({"iss": "https://issuer.example/A", "k#9;": [1, {"a": null}]});
                if let Some(e) = exp {
                    pl["exp"] = json!(e);
                }
                if name == "exp-string" {
                    pl["exp"] = json!("4000000000");
                }
                if let Some(n) = nbf {
                    pl["nbf"] = json!(n);
                }
                let mut h = jsonwebtoken::Header::new(crate::keys::extra_alg(an));
                h.typ = None;
                let jwt = match jsonwebtoken::encode(&h, &pl, &crate::keys::extra_enc(an)) {
                    Ok(j) => j,
                    Err(_) => continue,
                };
                let parts = Parts { jwt, disclosures: vec![], kb: None };
                let v = api::verify(&parts.encode(fmt, 0).unwrap_or_default(), &Resolver::Extra(an), None, fmt);
                l.evals += 1;
                match (expect_ok, &v.out) {
                    (_, p @ Outcome::Panic(..)) => l.violate(Violation { subcheck: "panic".into(), class: format!("{an} {name}"), observed: p.panic_signature().unwrap(), case, detail: json!({"alg": an, "variant": name}) }),
                    (true, Outcome::Ok(_)) => l.count("extra-alg.must-accept.accepted"),
                    (false, Outcome::Err(_)) => l.count("extra-alg.must-reject.rejected"),
                    (true, Outcome::Err(e)) => l.violate(Violation { subcheck: "rejected-inside-window".into(), class: format!("issuer algorithm {an}: {name}"), observed: format!("Err({})", e.chars().take(80).collect::<String>()), case, detail: json!({"alg": an, "payload": pl}) }),
                    (false, Outcome::Ok(_)) => l.violate(Violation { subcheck: format!("accepted-outside-window-{}", if name == "nbf-future" { "nbf" } else { "exp" }), class: format!("issuer algorithm {an}: {name}"), observed: "Ok".into(), case, detail: json!({"alg": an, "payload": pl}) }),
                }
            }
        }
    }
    // ---- key binding with a KB-JWT whose own iat is back- or forward-dated (signing oracle): the
    // credential's window is judged by the verifier's clock, not by what the holder wrote
    if let Some((halg, hidx)) = cfg.holder {
        let base_pl = |exp: Option<u64>, nbf: Option<u64>| -> Value {
            let mut p = base.clone();
            p.remove("exp");
            p.remove("nbf");
            // the confirmed key may itself carry members called exp / nbf / iat (here: long past, far
            // ahead): they say nothing about the CREDENTIAL's window
            if case % 3 == 0 {
                if let Some(j) = p.get_mut("cnf").and_then(|c| c.get_mut("jwk")).and_then(Value::as_object_mut) {
                    j.insert("exp".into(), json!(1_000_000_000u64));
                    j.insert("nbf".into(), json!(4_000_000_000u64));
                    j.insert("iat".into(), json!(1));
                }
            }
            if let Some(e) = exp {
                p.insert("exp".into(), json!(e));
            }
            if let Some(n) = nbf {
                p.insert("nbf".into(), json!(n));
            }
            Value::Object(p)
        };
        for (name, exp, nbf, kb_iat, expect_ok) in [
            ("expired, KB iat before expiry", Some(t0 - 7200), None, t0 - 10_000, false),
            ("expired, KB iat far in the past", Some(t0 - 86_400), None, 1_000_000_000, false),
            ("not yet valid, KB iat in the future", Some(t0 + 2 * 86_400), Some(t0 + 86_400), t0 + 90_000, false),
            ("valid, KB iat in the past", Some(t0 + 7200), None, t0 - 86_400, true),
            ("valid, KB iat now", Some(t0 + 7200), None, t0, true),
        ] {
            let jwt = api::sign_payload(cfg.alg, 0, &base_pl(exp, nbf), None);
            let ds: Vec<String> = vec![];
            let mut hashed = jwt.clone();
            hashed.push('~');
            let kbp = json!({"nonce": "n", "aud": "a", "iat": kb_iat, "sd_hash": crate::model::digest_of(&hashed)});
            let parts = Parts { jwt, disclosures: ds, kb: Some(api::sign_kb(halg, hidx, &kbp, Some("kb+jwt"))) };
            let v = api::verify(&parts.encode(fmt, 0).unwrap_or_default(), &resolver, Some(("a", "n")), fmt);
            l.evals += 1;
            match (expect_ok, &v.out) {
                (_, p @ Outcome::Panic(..)) => l.violate(Violation { subcheck: "panic".into(), class: name.into(), observed: p.panic_signature().unwrap(), case, detail: json!({"variant": name}) }),
                (true, Outcome::Ok(_)) => l.count("kb-iat.must-accept.accepted"),
                (false, Outcome::Err(_)) => l.count("kb-iat.must-reject.rejected"),
                (true, Outcome::Err(e)) => l.violate(Violation { subcheck: "rejected-inside-window".into(), class: format!("key binding: {name}"), observed: format!("Err({})", e.chars().take(80).collect::<String>()), case, detail: json!({"config": cfg.describe(), "kb_iat": kb_iat, "t": t0}) }),
                (false, Outcome::Ok(_)) => l.violate(Violation { subcheck: format!("accepted-outside-window-{}", if nbf.is_some() { "nbf" } else { "exp" }), class: format!("key binding: {name}"), observed: "Ok".into(), case, detail: json!({"config": cfg.describe(), "kb_iat": kb_iat, "exp": exp, "nbf": nbf, "t": t0}) }),
            }
        }
    }
    let _ = (ALL_ALGS, FMTS, Alg::ES256, Fmt::Json);
}

// ------------------------------------------------------------------------------------------
// virtual clock leg

/// Child mode: `sdjwt-mon C09-vclock <base>` — build a fixed token set with exp/nbf relative to
/// the REAL instant <base>, verify each under the (shifted) process clock, print one JSON line.
/// Child mode with a moving clock: `sdjwt-mon C09-vclock-history <base> <offset-file>`.
/// The same token strings are verified at virtual instant A (base), then the process moves its
/// own clock (the shim re-reads the offset file) to base+2d, base+400d and back to base, and
/// verifies the SAME strings again: an acceptance remembered from an earlier instant must not
/// survive the credential's expiry, nor a rejection its becoming valid.
pub fn vclock_history_child(base: u64, offset_file: &str) {
    let mut tokens: Vec<(String, crate::model::Fmt, Alg, u64, Option<u64>)> = vec![];
    for (ai, alg) in ALL_ALGS.iter().enumerate() {
        for fmt in FMTS {
            for (eo, no) in [(86_400i64, None), (86_400, Some(-3600i64)), (300 * 86_400, None), (300 * 86_400, Some(3 * 86_400)), (-86_400, None), (10 * YEAR as i64, Some(86_400))] {
                let exp = (base as i64 + eo) as u64;
                let nbf = no.map(|n: i64| (base as i64 + n) as u64);
                let mut pl = json!({"iss": "https://issuer.example/A", "exp": exp, "v": ai, "a": [1, 2]});
                if let Some(n) = nbf {
                    pl["nbf"] = json!(n);
                }
                let parts = Parts { jwt: api::sign_payload(*alg, 0, &pl, None), disclosures: vec![], kb: None };
                tokens.push((parts.encode(fmt, 0).unwrap_or_default(), fmt, *alg, exp, nbf));
            }
        }
    }
    let mut phases = vec![];
    for off in [0i64, 2 * 86_400, 400 * 86_400, 0, 5 * 86_400] {
        if std::fs::write(offset_file, off.to_string()).is_err() {
            return;
        }
        let vnow = api::now();
        let mut rows = vec![];
        for (text, fmt, alg, exp, nbf) in &tokens {
            let out = api::verify(text, &Resolver::Fixed(*alg, 0), None, *fmt).out;
            rows.push(json!({"alg": alg.name(), "fmt": fmt.name(), "exp": exp, "nbf": nbf, "result": out.class()}));
        }
        phases.push(json!({"offset": off, "vnow": vnow, "rows": rows}));
    }
    println!("{}", json!({"phases": phases}));
}

pub fn vclock_child(base: u64) {
    let now = api::now();
    let mut rows = vec![];
    let offs: [i64; 9] = [-10 * YEAR as i64, -(YEAR as i64), -2 * 86400, -3600, 3600, 2 * 86400, YEAR as i64, 10 * YEAR as i64, 40 * YEAR as i64];
    for (ai, alg) in ALL_ALGS.iter().enumerate() {
        for fmt in FMTS {
            for eo in offs {
                for no in [None, Some(-10 * YEAR as i64), Some(-3600i64), Some(3600), Some(2 * 86400), Some(10 * YEAR as i64)] {
                    let exp = (base as i64 + eo) as u64;
                    let nbf = no.map(|n| (base as i64 + n) as u64);
                    if let Some(n) = nbf {
                        if n >= exp {
                            continue;
                        }
                    }
                    let mut pl = json!({"iss": "https://issuer.example/A", "exp": exp, "v": ai});
                    if let Some(n) = nbf {
                        pl["nbf"] = json!(n);
                    }
                    let parts = Parts {
                        jwt: api::sign_payload(*alg, 0, &pl, None),
                        disclosures: vec![],
                        kb: None,
                    };
                    let pres = parts.encode(fmt, 0).unwrap();
                    let out = api::verify(&pres, &Resolver::Fixed(*alg, 0), None, fmt).out;
                    rows.push(json!({"alg": alg.name(), "fmt": fmt.name(), "exp": exp, "nbf": nbf, "result": out.class()}));
                }
            }
        }
    }
    // an honest issue -> present (key binding, iat = this instant) -> verify round trip at this instant:
    // reported as a token that expires two hours from "now" (so the parent's rule expects Ok)
    for alg in ALL_ALGS {
        for fmt in FMTS {
            let claims = json!({"iss": "https://issuer.example/A", "exp": now + 7200, "iat": now, "a": [1, 2], "b": {"c": "d"}});
            let strat = crate::gen::gen_strategy(&mut Rng(5), &claims, crate::gen::StratKind::AllLevels);
            let mut issuer = api::new_issuer(alg, 0, true);
            let res = match api::issue(&mut issuer, &claims, &strat, Some((Alg::EdDSA, 0)), true, fmt) {
                Outcome::Ok(sd) => match api::holder_new(&sd, fmt) {
                    Outcome::Ok(mut h) => {
                        let kb = api::KbArgs { nonce: "n".into(), aud: "a".into(), alg: Alg::EdDSA, key_idx: 0, explicit_alg: true };
                        match api::present(&mut h, &json!({"a": [true, false], "b": {"c": true}}), Some(&kb)) {
                            Outcome::Ok(p) => api::verify(&p, &Resolver::Fixed(alg, 0), Some(("a", "n")), fmt).out.class(),
                            _ => "err",
                        }
                    }
                    _ => "err",
                },
                _ => "err",
            };
            rows.push(json!({"alg": alg.name(), "fmt": fmt.name(), "exp": now + 7200, "nbf": Value::Null, "result": res, "honest_round_trip": true}));
        }
    }
    println!("{}", json!({"vnow": now, "rows": rows}));
}

fn vclock_leg(ctx: &Ctx, rep: &mut Report) {
    let shim = format!("{}/shim/libvclock.so", ctx.verif_dir);
    if !std::path::Path::new(&shim).exists() {
        let src = format!("{}/shim/vclock.c", ctx.verif_dir);
        let _ = std::process::Command::new("cc").args(["-shared", "-fPIC", "-O1", "-o", &shim, &src, "-ldl"]).status();
    }
    let mut leg = Map::new();
    if !std::path::Path::new(&shim).exists() {
        leg.insert("status".into(), json!("skipped: shim could not be built"));
        rep.extra.insert("vclock_leg".into(), Value::Object(leg));
        return;
    }
    let exe = std::env::current_exe().unwrap();
    let base = api::now();
    let mut checked = 0u64;
    let mut instants = vec![];
    // besides the far instants: offsets that put the virtual clock within the same few seconds of an
    // exact minute, hour and day boundary (the child takes well under a second)
    let to_boundary = |m: u64| -> i64 { (m - base % m) as i64 };
    let mut offsets: Vec<i64> = vec![-(10 * YEAR as i64), -(YEAR as i64), -86400, 0, 86400, YEAR as i64, 10 * YEAR as i64];
    for m in [60u64, 3600, 86_400] {
        offsets.push(to_boundary(m));
        offsets.push(to_boundary(m) - 1);
    }
    for off in offsets {
        let out = std::process::Command::new(&exe)
            .args(["C09-vclock", &base.to_string()])
            .env("LD_PRELOAD", &shim)
            .env("VCLOCK_OFFSET", off.to_string())
            .output();
        let out = match out {
            Ok(o) if o.status.success() => o,
            _ => {
                instants.push(json!({"offset": off, "status": "child failed"}));
                continue;
            }
        };
        let text = String::from_utf8_lossy(&out.stdout);
        let v: Value = match text.lines().last().and_then(|l| serde_json::from_str(l).ok()) {
            Some(v) => v,
            None => {
                instants.push(json!({"offset": off, "status": "unparsable child output"}));
                continue;
            }
        };
        let vnow = v["vnow"].as_u64().unwrap_or(0);
        // shim self-test: the child's clock must be the real clock plus the offset (±120 s)
        let want = (api::now() as i64 + off) as u64;
        if vnow.abs_diff(want) > 120 {
            instants.push(json!({"offset": off, "status": "shim self-test failed", "child_now": vnow, "expected": want}));
            continue;
        }
        let mut n_ok = 0u64;
        let mut n_err = 0u64;
        for row in v["rows"].as_array().cloned().unwrap_or_default() {
            let exp = row["exp"].as_u64().unwrap();
            let nbf = row["nbf"].as_u64();
            let res = row["result"].as_str().unwrap_or("");
            // guard band ±120 s around each boundary
            if exp.abs_diff(vnow) < 240 || nbf.map(|n| n.abs_diff(vnow) < 240).unwrap_or(false) {
                continue;
            }
            let expect_ok = exp > vnow && nbf.map(|n| n < vnow).unwrap_or(true);
            checked += 1;
            rep.local.evals += 1;
            if res == "ok" {
                n_ok += 1;
            } else {
                n_err += 1;
            }
            if (res == "ok") != expect_ok || res == "panic" {
                rep.local.violate(Violation {
                    subcheck: if res == "panic" { "panic".into() } else if expect_ok { "rejected-inside-window".into() } else { format!("accepted-outside-window-{}", if exp <= vnow { "exp" } else { "nbf" }) },
                    class: format!("virtual-clock offset {off}"),
                    observed: res.to_string(),
                    case: 0,
                    detail: json!({"virtual_now": vnow, "row": row}),
                });
            }
        }
        instants.push(json!({"offset": off, "virtual_now": vnow, "tokens_asserted_ok": n_ok, "tokens_asserted_err": n_err}));
    }
    // ---- history with a moving clock inside ONE process
    {
        let off_file = format!("{}/.partials/vclock-offset-{}", ctx.out_dir, std::process::id());
        let _ = std::fs::create_dir_all(format!("{}/.partials", ctx.out_dir));
        let _ = std::fs::write(&off_file, "0");
        let real_now = api::now();
        let out = std::process::Command::new(&exe)
            .args(["C09-vclock-history", &real_now.to_string(), &off_file])
            .env("LD_PRELOAD", &shim)
            .env("VCLOCK_OFFSET_FILE", &off_file)
            .output();
        let _ = std::fs::remove_file(&off_file);
        let v: Option<Value> = out.ok().filter(|o| o.status.success()).and_then(|o| String::from_utf8_lossy(&o.stdout).lines().last().and_then(|l| serde_json::from_str(l).ok()));
        match v {
            None => {
                leg.insert("moving_clock_history".into(), json!("child failed; decides nothing"));
            }
            Some(v) => {
                let mut summary = vec![];
                for ph in v["phases"].as_array().cloned().unwrap_or_default() {
                    let off = ph["offset"].as_i64().unwrap_or(0);
                    let vnow = ph["vnow"].as_u64().unwrap_or(0);
                    if vnow.abs_diff((real_now as i64 + off) as u64) > 300 {
                        summary.push(json!({"offset": off, "status": "shim self-test failed (clock did not move)", "vnow": vnow}));
                        continue;
                    }
                    let (mut ok, mut err) = (0u64, 0u64);
                    for row in ph["rows"].as_array().cloned().unwrap_or_default() {
                        let exp = row["exp"].as_u64().unwrap_or(0);
                        let nbf = row["nbf"].as_u64();
                        let res = row["result"].as_str().unwrap_or("");
                        if exp.abs_diff(vnow) < 240 || nbf.map(|n| n.abs_diff(vnow) < 240).unwrap_or(false) {
                            continue;
                        }
                        let expect_ok = exp > vnow && nbf.map(|n| n < vnow).unwrap_or(true);
                        checked += 1;
                        rep.local.evals += 1;
                        if res == "ok" { ok += 1 } else { err += 1 }
                        if (res == "ok") != expect_ok || res == "panic" {
                            rep.local.violate(Violation {
                                subcheck: if res == "panic" { "panic".into() } else if expect_ok { "rejected-inside-window".into() } else { format!("accepted-outside-window-{}", if exp <= vnow { "exp" } else { "nbf" }) },
                                class: format!("moving clock, same process, same token string, now at offset {off}"),
                                observed: res.to_string(),
                                case: 0,
                                detail: json!({"virtual_now": vnow, "row": row, "note": "the same token string was verified earlier in this process at another virtual instant"}),
                            });
                        }
                    }
                    summary.push(json!({"offset": off, "virtual_now": vnow, "asserted_ok": ok, "asserted_err": err}));
                }
                leg.insert("moving_clock_history".into(), json!(summary));
            }
        }
    }
    leg.insert("status".into(), json!("run"));
    leg.insert("instants".into(), json!(instants));
    leg.insert("verdicts_checked".into(), json!(checked));
    rep.extra.insert("vclock_leg".into(), Value::Object(leg));
    rep.local.add("vclock.verdicts-checked", checked);
}
