//! C02 — the verifier accepts only an intact issuer-signed JWT under the resolver's key.
//! Fault enumeration with a must-reject oracle per fault and a must-accept control per token;
//! resolver invocations are events compared with the token's own iss / alg.

use crate::api::{self, Outcome, Resolver, Verified};
use crate::evidence::{run_cases, Ctx, Local, Report, Tier, Violation};
use crate::gen::{self, GenCfg, PROFILES, STRAT_KINDS};
use crate::keys::{self, Alg, ALL_ALGS};
use crate::model::{Fmt, Parts, FMTS};
use crate::pipeline;
use crate::rng::Rng;
use crate::tamper::{self, alphabet69, CharOp};
use serde_json::{json, Value};

const STREAM: u64 = 2;

pub fn run(ctx: &Ctx) -> Report {
    let n = match ctx.tier {
        Tier::Quick => ctx.cases(96, 0),
        Tier::Thorough => ctx.cases(0, 6 * (40 + 300)),
    };
    let local = run_cases(ctx, n, |case, l| one_case(ctx, case, l));
    let mut rep = Report::new(
        "fault_enumeration",
        "case = one honest presentation (alg=case%3, format=(case/3)%2, small generated claims, random strategy/selection, half of \
         them key-bound and verified with aud/nonce). Faults on its issuer-signed JWT: character level at EVERY position (quick: 2 \
         substitutions + deletion + 1 insertion; thorough: first 40 tokens per (alg,format) all 69 substitution characters + deletion \
         + 3 insertions, 300 more with 1+1+1) and ~40 structural faults (part swaps between two tokens of the same key, payload \
         re-encoded with a claim / digest changed, signature stripped/truncated/extended, alg rewrites, resolver returning other \
         keys, resolver keyed by iss). evaluations = verifier calls. Distinct = (token, operation, position, character) that \
         changed the string; all faults are non-trivial by construction (identity edits are skipped and counted).",
        local,
    );
    rep.assumptions = vec![
        "ring/jsonwebtoken signature verification is trusted; ECDSA (r, n-s) malleability is not a single-character edit and is not generated".into(),
        "a resolver that itself hands out an HS256 secret equal to public key bytes is a caller error and not generated".into(),
    ];
    if ctx.only_case.is_none() && ctx.shard.is_none() && std::env::var("VERIF_LEG").is_err() {
        crate::mon::history::leg(ctx, &mut rep, "C02");
    }
    rep.floor("control.accepted", n.min(24));
    rep.floor("fault.char.rejected", 10_000);
    rep.floor("fault.structural.rejected", 300);
    rep.floor("resolver.calls.checked", 24);
    rep
}

struct Token {
    alg: Alg,
    fmt: Fmt,
    parts: Parts,
    kb: Option<(String, String)>,
    iss: String,
}

fn make_token(ctx: &Ctx, r: &mut Rng, alg: Alg, fmt: Fmt, key_idx: usize, iss: &str, bound: bool) -> Option<Token> {
    let profile = *r.pick(&PROFILES);
    let mut g = GenCfg::new(profile, *r.pick(&[4, 8, 15]), api::now());
    let skind = *r.pick(&STRAT_KINDS);
    g.safe_names = skind.is_custom();
    g.iss = iss.to_string();
    let mut u = gen::gen_claims(r, &g);
    if r.chance(30) {
        // a nested (visible or hidden) member that is ALSO called iss and names another issuer, placed
        // before the top-level one in document order
        let mut m = serde_json::Map::new();
        m.insert("org#900;".into(), json!({"iss": "https://issuer.example/B", "name": "x"}));
        for (k, v) in u.as_object().cloned().unwrap_or_default() {
            m.insert(k, v);
        }
        u = Value::Object(m);
    }
    let strat = gen::gen_strategy(r, &u, skind);
    let holder = if bound { Some((*r.pick(&[Alg::ES256, Alg::EdDSA]), 0)) } else { None };
    let mut issuer = api::new_issuer(alg, key_idx, r.chance(50));
    let sd = api::issue(&mut issuer, &u, &strat, holder, r.chance(50), fmt).ok()?;
    let sel = pipeline::random_selection(r, &u);
    let kb = holder.filter(|_| r.chance(75)).map(|h| pipeline::kb_args_for(r, h));
    let mut h = api::holder_new(&sd, fmt).ok()?;
    let pres = api::present(&mut h, &sel, kb.as_ref()).ok()?;
    let parts = Parts::parse(fmt, &pres).ok()?;
    tamper::segments(&parts.jwt)?;
    parts.payload().ok()?;
    let _ = ctx;
    Some(Token {
        alg,
        fmt,
        parts,
        kb: kb.map(|k| (k.aud, k.nonce)),
        iss: iss.to_string(),
    })
}

fn verify_parts(t: &Token, parts: &Parts, resolver: &Resolver) -> Option<Verified> {
    let s = parts.encode(t.fmt, 0)?;
    Some(api::verify(&s, resolver, t.kb.as_ref().map(|(a, n)| (a.as_str(), n.as_str())), t.fmt))
}

struct Judge<'a> {
    case: u64,
    l: &'a mut Local,
    token_desc: Value,
}

impl<'a> Judge<'a> {
    /// must-reject oracle
    fn reject(&mut self, kind: &str, class: &str, v: Option<Verified>, detail: impl FnOnce() -> Value) {
        let v = match v {
            Some(v) => v,
            None => {
                self.l.count("fault.skipped.not-expressible-in-format");
                return;
            }
        };
        self.l.evals += 1;
        if v.resolver_calls.len() > 1 {
            self.l.violate(Violation {
                subcheck: "resolver-called-more-than-once".into(),
                class: class.into(),
                observed: format!("{} calls", v.resolver_calls.len()),
                case: self.case,
                detail: json!({"token": self.token_desc, "fault": detail(), "calls": format!("{:?}", v.resolver_calls)}),
            });
            return;
        }
        match &v.out {
            Outcome::Err(_) => self.l.count(&format!("fault.{kind}.rejected")),
            Outcome::Ok(_) => self.l.violate(Violation {
                subcheck: "tampered-token-accepted".into(),
                class: class.into(),
                observed: "Ok".into(),
                case: self.case,
                detail: json!({"token": self.token_desc, "fault": detail(), "history": api::history()}),
            }),
            p @ Outcome::Panic(..) => self.l.violate(Violation {
                subcheck: "panic".into(),
                class: class.into(),
                observed: p.panic_signature().unwrap(),
                case: self.case,
                detail: json!({"token": self.token_desc, "fault": detail()}),
            }),
        }
    }
}

fn one_case(ctx: &Ctx, case: u64, l: &mut Local) {
    let mut r = Rng::for_case(ctx.seed, STREAM, case);
    let alg = ALL_ALGS[(case % 3) as usize];
    let fmt = FMTS[((case / 3) % 2) as usize];
    let idx = case / 6;
    let bound = idx % 2 == 0;
    let iss_a = "https://issuer.example/A";
    // the main token's issuer string varies in ways a normalising implementation would rewrite;
    // the resolver must be asked for exactly the string the token carries
    let iss_main = *r.pick(&[
        "https://issuer.example/A",
        "https://Issuer.EXAMPLE/A",
        "HTTPS://issuer.example:443/A",
        "https://issuer.example/a/../A",
        "https://issuer.example/%41",
        " https://issuer.example/A ",
        "did:Example:A",
        "https://issuer.example/A/",
        "https://ISSUER.example/é",
        "",
    ]);
    let t = match make_token(ctx, &mut r, alg, fmt, 0, iss_main, bound) {
        Some(t) => t,
        None => {
            l.count("skipped.token-creation-failed");
            return;
        }
    };
    let fixed = Resolver::Fixed(alg, 0);
    let token_desc = json!({"alg": alg.name(), "format": fmt.name(), "kb_requested": t.kb.is_some(), "jwt": t.parts.jwt, "disclosures": t.parts.disclosures.len()});
    l.sample(case, || token_desc.clone());

    // ---- control: accepted, resolver called exactly once with the token's own iss and alg
    let control = verify_parts(&t, &t.parts, &fixed).unwrap();
    l.evals += 1;
    match &control.out {
        Outcome::Ok(_) => l.count("control.accepted"),
        other => {
            l.violate(Violation {
                subcheck: "control-rejected".into(),
                class: format!("{} {}", alg.name(), fmt.name()),
                observed: other.panic_signature().unwrap_or_else(|| other.describe()),
                case,
                detail: json!({"token": token_desc, "history": api::history()}),
            });
            return;
        }
    }
    l.count("resolver.calls.checked");
    let want_alg = format!("{:?}", alg.jwt());
    if control.resolver_calls.len() != 1 || control.resolver_calls[0].iss != t.iss || control.resolver_calls[0].alg != want_alg {
        l.violate(Violation {
            subcheck: "resolver-invocation".into(),
            class: "control".into(),
            observed: format!("{} call(s); expected exactly one with the token's iss and alg", control.resolver_calls.len()),
            case,
            detail: json!({"token": token_desc, "calls": format!("{:?}", control.resolver_calls), "expected": {"iss": t.iss, "alg": want_alg}}),
        });
    }
    // the header the resolver was handed is the ISSUER JWT's own (not, e.g., the KB-JWT's)
    if let (Some(call), Ok(hraw)) = (control.resolver_calls.first(), crate::model::b64d(&tamper::segments(&t.parts.jwt).unwrap()[0])) {
        if let Ok(own) = serde_json::from_slice::<Value>(&hraw) {
            let seen = &call.header;
            let differs = ["alg", "typ", "kid", "cty"].iter().any(|k| own.get(*k).filter(|v| !v.is_null()) != seen.get(*k).filter(|v| !v.is_null()));
            if differs {
                l.violate(Violation {
                    subcheck: "resolver-invocation".into(),
                    class: format!("control (kb_jwt present: {})", t.parts.kb.is_some()),
                    observed: "resolver was handed a header that is not the issuer-signed JWT's".into(),
                    case,
                    detail: json!({"token": token_desc, "issuer_jwt_header": own, "resolver_saw": seen}),
                });
            } else {
                l.count("resolver.header.checked");
            }
        }
    }
    let mut j = Judge {
        case,
        l,
        token_desc: token_desc.clone(),
    };

    // ---- character-level faults at every position of the issuer-signed JWT
    let full = ctx.tier == Tier::Thorough && idx < 40;
    let alpha = alphabet69();
    let segs = tamper::segments(&t.parts.jwt).unwrap();
    // sites: Compact -> the whole "h.p.s" string; JSON -> each member separately
    let sites: Vec<(usize, String)> = match fmt {
        Fmt::Compact => vec![(9, t.parts.jwt.clone())],
        Fmt::Json => vec![(0, segs[0].clone()), (1, segs[1].clone()), (2, segs[2].clone())],
    };
    for (seg_no, text) in &sites {
        // (very long texts — a payload with thousands of visible placeholders — are sampled: every position
        // within 48 characters of a border or a dot, and every `stride`-th position elsewhere)
        let stride = (text.len() / 3000).max(1);
        let phase = r.usize(stride);
        let dots: Vec<usize> = text.bytes().enumerate().filter(|(_, b)| *b == b'.').map(|(i, _)| i).collect();
        for pos in 0..=text.len() {
            if stride > 1 && pos % stride != phase && pos >= 48 && pos + 48 < text.len() && !dots.iter().any(|d| pos.abs_diff(*d) < 48) {
                continue;
            }
            let mut ops: Vec<CharOp> = vec![];
            if full {
                ops.extend(alpha.iter().map(|c| CharOp::Sub(*c)));
                ops.push(CharOp::Del);
                for _ in 0..3 {
                    ops.push(CharOp::Ins(*r.pick(&alpha)));
                }
            } else if ctx.tier == Tier::Quick {
                ops.push(CharOp::Sub(*r.pick(&alpha)));
                ops.push(CharOp::Sub(*r.pick(&alpha)));
                ops.push(CharOp::Del);
                ops.push(CharOp::Ins(*r.pick(&alpha)));
            } else {
                ops.push(CharOp::Sub(*r.pick(&alpha)));
                ops.push(CharOp::Del);
                ops.push(CharOp::Ins(*r.pick(&alpha)));
            }
            // an escape character in front of every character that is not a letter or digit ('-', '_', '.':
            // a reader that "unescapes" Markdown, shell or URL text would restore the signed text)
            if text.as_bytes().get(pos).map(|b| !b.is_ascii_alphanumeric()).unwrap_or(false) {
                ops.push(CharOp::Ins('\\'));
                ops.push(CharOp::Ins(*r.pick(&['%', '^', '`', '\'', '&'])));
            }
            // at the borders of the string / of each segment every insertion character is tried
            // (a '.' or '=' appended behind the signature is a classic lenient-parser case)
            let at_border = pos == 0 || pos == text.len() || text.as_bytes().get(pos) == Some(&b'.') || (pos > 0 && text.as_bytes()[pos - 1] == b'.');
            if at_border {
                ops.extend(alpha.iter().map(|c| CharOp::Ins(*c)));
            }
            // the LAST character of a segment carries unused trailing bits (2 or 4): every substitution
            // there, incl. the ones that decode to the same octets under a lenient decoder
            let last_of_segment = pos + 1 == text.len() || text.as_bytes().get(pos + 1) == Some(&b'.');
            if last_of_segment && !full {
                ops.extend(alpha.iter().map(|c| CharOp::Sub(*c)));
            }
            // non-ASCII / invisible / control characters: two random ones per position, all at borders
            {
                let mut odd: Vec<(char, bool)> = vec![(*r.pick(&tamper::ODD_CHARS), false), (*r.pick(&tamper::ODD_CHARS), true)];
                // the character's own look-alike: its Unicode FULLWIDTH form (U+FF01..U+FF5E), and for
                // letters the same letter in the other case is covered by the alphabet above
                if let Some(c) = text.as_bytes().get(pos).copied().filter(|b| (0x21..=0x7e).contains(b)).and_then(|b| char::from_u32(b as u32 + 0xFEE0)) {
                    odd.push((c, true));
                }
                if at_border {
                    odd.extend(tamper::ODD_CHARS.iter().map(|c| (*c, false)));
                }
                for (c, replace) in odd {
                    let edited = match tamper::apply_char(text, pos, c, replace) {
                        Some(e) => e,
                        None => continue,
                    };
                    let mut mem = segs.clone();
                    let whole;
                    let enc: Option<String> = if fmt == Fmt::Json {
                        mem[*seg_no] = edited;
                        let mut m = serde_json::Map::new();
                        m.insert("protected".into(), json!(mem[0]));
                        m.insert("payload".into(), json!(mem[1]));
                        m.insert("signature".into(), json!(mem[2]));
                        m.insert("disclosures".into(), json!(t.parts.disclosures));
                        if let Some(k) = &t.parts.kb {
                            m.insert("kb_jwt".into(), json!(k));
                        }
                        Some(Value::Object(m).to_string())
                    } else {
                        whole = edited;
                        let mut p2 = t.parts.clone();
                        p2.jwt = whole;
                        Some(p2.to_compact())
                    };
                    let v = enc.map(|e| api::verify(&e, &fixed, t.kb.as_ref().map(|(a, n)| (a.as_str(), n.as_str())), fmt));
                    j.l.distinct(crate::rng::mix(case ^ ((pos as u64) << 20) ^ ((c as u64) << 40) ^ ((replace as u64) << 62) ^ ((*seg_no as u64) << 58)));
                    j.l.count(if replace { "fault.char.substitute.non-ascii" } else { "fault.char.insert.non-ascii" });
                    j.reject("char", &format!("{} of U+{:04X} ({} {})", if replace { "substitute" } else { "insert" }, c as u32, alg.name(), fmt.name()), v, || json!({"char": format!("U+{:04X}", c as u32), "pos": pos, "replace": replace}));
                }
            }
            for op in ops {
                let edited = match tamper::apply(text, pos, op) {
                    Some(e) => e,
                    None => {
                        j.l.count("fault.skipped.identity");
                        continue;
                    }
                };
                let jwt = match seg_no {
                    9 => edited,
                    0 => format!("{}.{}.{}", edited, segs[1], segs[2]),
                    1 => format!("{}.{}.{}", segs[0], edited, segs[2]),
                    _ => format!("{}.{}.{}", segs[0], segs[1], edited),
                };
                let mut p = t.parts.clone();
                p.jwt = jwt;
                // JSON members may now contain '.', encode by hand so the member split is kept
                let v = if fmt == Fmt::Json {
                    let mut mem = segs.clone();
                    mem[*seg_no] = tamper::apply(text, pos, op).unwrap();
                    let mut m = serde_json::Map::new();
                    m.insert("protected".into(), json!(mem[0]));
                    m.insert("payload".into(), json!(mem[1]));
                    m.insert("signature".into(), json!(mem[2]));
                    m.insert("disclosures".into(), json!(p.disclosures));
                    if let Some(k) = &p.kb {
                        m.insert("kb_jwt".into(), json!(k));
                    }
                    Some(api::verify(&Value::Object(m).to_string(), &fixed, t.kb.as_ref().map(|(a, n)| (a.as_str(), n.as_str())), fmt))
                } else {
                    verify_parts(&t, &p, &fixed)
                };
                j.l.distinct(crate::rng::mix(case ^ ((pos as u64) << 20) ^ (op.code() << 40) ^ ((*seg_no as u64) << 60)));
                let seg_name = match seg_no {
                    9 => {
                        let h = segs[0].len();
                        let pl = h + 1 + segs[1].len();
                        if pos <= h { "header" } else if pos <= pl { "payload" } else { "signature" }
                    }
                    0 => "header",
                    1 => "payload",
                    _ => "signature",
                };
                j.l.count(&format!("fault.char.{}.{}", op.name(), seg_name));
                j.reject("char", &format!("{} in {seg_name} ({} {})", op.name(), alg.name(), fmt.name()), v, || json!({"op": format!("{op:?}"), "pos": pos, "segment": seg_name, "tampered_jwt": p.jwt}));
            }
        }
    }

    // ---- structural faults
    let structural = |j: &mut Judge, name: &str, jwt: Option<String>, resolver: &Resolver| {
        let jwt = match jwt {
            Some(x) if x != t.parts.jwt => x,
            _ => {
                j.l.count("fault.skipped.identity");
                return;
            }
        };
        let mut p = t.parts.clone();
        p.jwt = jwt.clone();
        let v = verify_parts(&t, &p, resolver);
        j.l.distinct(crate::rng::mix(case ^ gen::hash_str(name)));
        j.l.count(&format!("fault.structural.kind.{name}"));
        j.reject("structural", &format!("{name} ({} {})", alg.name(), fmt.name()), v, || json!({"fault": name, "tampered_jwt": jwt, "resolver": format!("{resolver:?}")}));
    };
    // second token signed by the same key: swap parts
    if let Some(t2) = make_token(ctx, &mut r, alg, fmt, 0, iss_a, bound) {
        let s2 = tamper::segments(&t2.parts.jwt).unwrap();
        for mask in 1u32..7 {
            let pick = |i: usize| if mask >> i & 1 == 1 { s2[i].clone() } else { segs[i].clone() };
            let jwt = format!("{}.{}.{}", pick(0), pick(1), pick(2));
            if jwt == t2.parts.jwt {
                continue;
            }
            structural(&mut j, &format!("swap-parts-mask{mask}"), Some(jwt), &fixed);
        }
    }
    // payload re-encoded with one claim / one digest changed, signature kept
    structural(&mut j, "payload-claim-added", tamper::reencode_segment(&t.parts.jwt, 1, |v| { v["admin#x;"] = json!(true); }), &fixed);
    structural(&mut j, "payload-exp-changed", tamper::reencode_segment(&t.parts.jwt, 1, |v| { v["exp"] = json!(4_102_444_799u64); }), &fixed);
    structural(&mut j, "payload-iss-changed", tamper::reencode_segment(&t.parts.jwt, 1, |v| { v["iss"] = json!("https://issuer.example/B"); }), &fixed);
    structural(&mut j, "payload-digest-changed", tamper::reencode_segment(&t.parts.jwt, 1, |v| { tamper::flip_first_digest(v); }), &fixed);
    structural(&mut j, "payload-cnf-replaced", tamper::reencode_segment(&t.parts.jwt, 1, |v| { v["cnf"] = json!({"jwk": keys::holder_jwk_json(Alg::ES256, 1)}); }), &fixed);
    // every top-level claim in turn: value replaced / member removed; every digest in turn flipped
    if let Ok(Value::Object(pl)) = t.parts.payload() {
        for (ki, k) in pl.keys().enumerate().take(24) {
            let k1 = k.clone();
            structural(&mut j, &format!("payload-claim-{ki}-replaced"), tamper::reencode_segment(&t.parts.jwt, 1, |v| { v[k1.as_str()] = json!("tampered"); }), &fixed);
            let k2 = k.clone();
            structural(&mut j, &format!("payload-claim-{ki}-removed"), tamper::reencode_segment(&t.parts.jwt, 1, |v| { v.as_object_mut().map(|o| o.remove(k2.as_str())); }), &fixed);
        }
        let n_digests = tamper::count_digests(&Value::Object(pl.clone()));
        for di in 0..n_digests.min(24) {
            structural(&mut j, &format!("payload-digest-{di}-changed"), tamper::reencode_segment(&t.parts.jwt, 1, |v| { tamper::flip_nth_digest(v, di, &mut 0); }), &fixed);
        }
    }
    structural(&mut j, "payload-whitespace", Some(format!("{}.{}.{}", segs[0], crate::model::b64e(format!(" {}", String::from_utf8(crate::model::b64d(&segs[1]).unwrap()).unwrap()).as_bytes()), segs[2])), &fixed);
    // signature stripped / truncated / extended
    structural(&mut j, "signature-empty", Some(format!("{}.{}.", segs[0], segs[1])), &fixed);
    if fmt == Fmt::Compact {
        structural(&mut j, "signature-segment-missing", Some(format!("{}.{}", segs[0], segs[1])), &fixed);
    }
    for k in 1..=3usize {
        if segs[2].len() > k {
            structural(&mut j, &format!("signature-truncated-{k}"), Some(format!("{}.{}.{}", segs[0], segs[1], &segs[2][..segs[2].len() - k])), &fixed);
        }
    }
    structural(&mut j, "signature-extended", Some(format!("{}.{}.{}A", segs[0], segs[1], segs[2])), &fixed);
    // whole octets put in front of / behind the signature value (zero octets, as a big-integer or
    // "length fix-up" reader would tolerate), and the signature value repeated
    if let Ok(raw) = crate::model::b64d(&segs[2]) {
        for k in [1usize, 2, 3, 32, 63, 64] {
            let front: Vec<u8> = std::iter::repeat(0u8).take(k).chain(raw.iter().copied()).collect();
            structural(&mut j, &format!("signature-zero-octets-in-front-{k}"), Some(format!("{}.{}.{}", segs[0], segs[1], crate::model::b64e(&front))), &fixed);
        }
        let back: Vec<u8> = raw.iter().copied().chain(std::iter::repeat(0u8).take(1 + r.usize(3))).collect();
        structural(&mut j, "signature-zero-octets-behind", Some(format!("{}.{}.{}", segs[0], segs[1], crate::model::b64e(&back))), &fixed);
        structural(&mut j, "signature-twice", Some(format!("{}.{}.{}", segs[0], segs[1], crate::model::b64e(&[raw.clone(), raw.clone()].concat()))), &fixed);
    }
    // a whole segment emptied (a reader that falls back to a default header / payload when one is missing)
    structural(&mut j, "header-segment-empty", Some(format!(".{}.{}", segs[1], segs[2])), &fixed);
    structural(&mut j, "payload-segment-empty", Some(format!("{}..{}", segs[0], segs[2])), &fixed);
    if fmt == Fmt::Compact {
        structural(&mut j, "header-segment-missing", Some(format!("{}.{}", segs[1], segs[2])), &fixed);
    }
    if fmt == Fmt::Compact {
        for (k, tail) in [".", ".A", "..", ".AAAA.BBBB", ".e30"].iter().enumerate() {
            structural(&mut j, &format!("fourth-segment-{k}"), Some(format!("{}{}", t.parts.jwt, tail)), &fixed);
        }
        structural(&mut j, "leading-dot", Some(format!(".{}", t.parts.jwt)), &fixed);
    }
    structural(&mut j, "signature-padded", Some(format!("{}.{}.{}=", segs[0], segs[1], segs[2])), &fixed);
    // the genuine signature in another encoding (DER for ECDSA, standard base64, hex, double base64url)
    if let Ok(raw) = crate::model::b64d(&segs[2]) {
        use base64::Engine;
        let mut variants: Vec<(&str, String)> = vec![
            ("std-base64", base64::engine::general_purpose::STANDARD.encode(&raw)),
            ("std-base64-nopad", base64::engine::general_purpose::STANDARD_NO_PAD.encode(&raw)),
            ("url-padded", base64::engine::general_purpose::URL_SAFE.encode(&raw)),
            ("hex", raw.iter().map(|b| format!("{b:02x}")).collect()),
            ("double-b64url", crate::model::b64e(segs[2].as_bytes())),
        ];
        if raw.len() == 64 {
            // ASN.1 DER SEQUENCE { INTEGER r, INTEGER s }
            let int = |x: &[u8]| -> Vec<u8> {
                let mut v: Vec<u8> = x.iter().copied().skip_while(|b| *b == 0).collect();
                if v.is_empty() {
                    v.push(0);
                }
                if v[0] & 0x80 != 0 {
                    v.insert(0, 0);
                }
                let mut out = vec![0x02, v.len() as u8];
                out.extend(v);
                out
            };
            let mut body = int(&raw[..32]);
            body.extend(int(&raw[32..]));
            let mut der = vec![0x30, body.len() as u8];
            der.extend(body);
            variants.push(("der", crate::model::b64e(&der)));
        }
        for (name, sig) in variants {
            structural(&mut j, &format!("signature-transcoded-{name}"), Some(format!("{}.{}.{}", segs[0], segs[1], sig)), &fixed);
        }
    }
    structural(&mut j, "signature-zeroed", Some(format!("{}.{}.{}", segs[0], segs[1], "A".repeat(segs[2].len()))), &fixed);
    // alg rewrites (header re-encoded; signature kept, emptied, or recomputed by the attacker)
    for (name, algv) in [("none", json!("none")), ("None", json!("None")), ("NONE", json!("NONE")), ("empty", json!("")), ("number", json!(5)), ("null", Value::Null), ("ES384", json!("ES384")), ("RS256", json!("RS256")), ("unknown", json!("XX999")),
        ("other-family", json!(if alg == Alg::EdDSA { "ES256" } else { "EdDSA" })), ("HS256", json!("HS256")), ("HS512", json!("HS512"))] {
        if json!(alg.name()) == algv {
            continue;
        }
        let hdr = tamper::reencode_segment(&t.parts.jwt, 0, |v| { v["alg"] = algv.clone(); });
        structural(&mut j, &format!("alg-rewritten-{name}-sig-kept"), hdr.clone(), &fixed);
        if let Some(h) = &hdr {
            let hs = tamper::segments(h).unwrap();
            structural(&mut j, &format!("alg-rewritten-{name}-sig-empty"), Some(format!("{}.{}.", hs[0], hs[1])), &fixed);
        }
    }
    structural(&mut j, "alg-removed", tamper::reencode_segment(&t.parts.jwt, 0, |v| { v.as_object_mut().unwrap().remove("alg"); }), &fixed);
    if alg != Alg::HS256 {
        // classic confusion: alg HS256, MAC keyed with the issuer's PUBLIC key bytes; resolver hands out the public key
        let payload: Value = t.parts.payload().unwrap();
        // secret = every encoding of the public key an attacker can derive: PEM text, PEM without
        // newlines, SPKI DER, raw key material (uncompressed EC point / 32-byte Ed25519 key), and the
        // base64url forms of the raw material
        let raw = keys::issuer_public_raw(alg, 0);
        let secrets: Vec<(&str, Vec<u8>)> = vec![
            ("pem", keys::issuer_public_bytes(alg, 0)),
            ("pem-no-newlines", keys::issuer_public_bytes(alg, 0).into_iter().filter(|b| *b != b'\n').collect()),
            ("der", keys::issuer_public_der(alg, 0)),
            ("raw", raw.clone()),
            ("raw-without-prefix", raw.iter().skip(1).copied().collect()),
            ("raw-b64url", crate::model::b64e(&raw).into_bytes()),
            ("empty", vec![]),
        ];
        for (name, secret) in secrets {
            for (hs, a) in [("HS256", jsonwebtoken::Algorithm::HS256), ("HS384", jsonwebtoken::Algorithm::HS384), ("HS512", jsonwebtoken::Algorithm::HS512)] {
                let forged = api::sign_raw(&json!({"alg": hs, "typ": "JWT"}), &payload, a, &jsonwebtoken::EncodingKey::from_secret(&secret));
                structural(&mut j, &format!("{}-keyed-with-public-key-{name}", hs.to_lowercase()), Some(forged), &fixed);
                // JSON form: the same forgery as an RFC 7797 document (`b64: false`, payload member = the claims as
                // plain JSON text, MAC over protected + '.' + that text): another way into the signature check
                if fmt == Fmt::Json && hs == "HS256" {
                    let hdr = crate::model::b64e(json!({"alg": hs, "b64": false, "crit": ["b64"]}).to_string().as_bytes());
                    let text = payload.to_string();
                    if let Ok(sig) = jsonwebtoken::crypto::sign(format!("{hdr}.{text}").as_bytes(), &jsonwebtoken::EncodingKey::from_secret(&secret), a) {
                        for pm in [json!(text), payload.clone()] {
                            let doc = json!({"protected": hdr, "payload": pm, "signature": sig, "disclosures": t.parts.disclosures}).to_string();
                            let v = api::verify(&doc, &fixed, None, fmt);
                            j.l.count("fault.structural.kind.unencoded-payload-keyed-with-public-key");
                            j.l.distinct(crate::rng::mix(case ^ gen::hash_str(name) ^ 0xb64));
                            j.reject("structural", &format!("b64:false document, HS256 keyed with the public key ({name}) ({} JSON)", alg.name()), Some(v), || json!({"secret_form": name}));
                        }
                    }
                }
            }
        }
    }
    // ---- JSON only: a genuine member followed by '~' and a well-formed disclosure (a parser that
    // funnels the JSON members through the compact splitter would cut there)
    if fmt == Fmt::Json {
        let extra = t.parts.disclosures.first().cloned().unwrap_or_else(|| crate::model::b64e(b"[\"s\",\"k\",1]"));
        for (mi, mname) in ["protected", "payload", "signature"].iter().enumerate() {
            for tail in [format!("~{extra}"), format!("~{extra}~"), "~".to_string()] {
                let mut mem = segs.clone();
                mem[mi] = format!("{}{}", mem[mi], tail);
                let mut ds = t.parts.disclosures.clone();
                if !ds.is_empty() && tail.len() > 1 {
                    ds.remove(0);
                }
                let mut m = serde_json::Map::new();
                m.insert("protected".into(), json!(mem[0]));
                m.insert("payload".into(), json!(mem[1]));
                m.insert("signature".into(), json!(mem[2]));
                m.insert("disclosures".into(), json!(ds));
                if let Some(k) = &t.parts.kb {
                    m.insert("kb_jwt".into(), json!(k));
                }
                let v = api::verify(&Value::Object(m).to_string(), &fixed, t.kb.as_ref().map(|(a, n)| (a.as_str(), n.as_str())), fmt);
                j.l.count("fault.structural.kind.json-member-with-tilde-tail");
                j.l.distinct(crate::rng::mix(case ^ gen::hash_str(mname) ^ gen::hash_str(&tail)));
                j.reject("structural", &format!("{mname} member followed by ~disclosure ({} JSON)", alg.name()), Some(v), || json!({"member": mname, "tail": tail}));
            }
        }
    }
    // ---- header members other than alg: the resolver must be handed the token's OWN header
    if alg != Alg::HS256 || true {
        let payload: Value = t.parts.payload().unwrap_or(Value::Null);
        let mk = |hdr: Value, key_idx: usize| -> String { api::sign_raw(&hdr, &payload, alg.jwt(), &keys::issuer_enc(alg, key_idx)) };
        // control: kid "k0" signed by key 0, resolver keyed by kid -> accepted, and the resolver saw kid and typ
        let mut p = t.parts.clone();
        p.jwt = mk(json!({"alg": alg.name(), "typ": "sd+jwt", "kid": "k0"}), 0);
        if t.kb.is_none() {
            let v = verify_parts(&t, &p, &Resolver::ByKid(alg));
            if let Some(v) = v {
                j.l.evals += 1;
                let seen = v.resolver_calls.first().map(|c| c.header.clone()).unwrap_or(Value::Null);
                if !v.out.is_ok() {
                    j.l.violate(Violation { subcheck: "control-rejected".into(), class: "token with kid, resolver keyed by kid".into(), observed: v.out.panic_signature().unwrap_or_else(|| v.out.describe()), case, detail: json!({"jwt": p.jwt}) });
                } else if seen["kid"] != "k0" || seen["typ"] != "sd+jwt" {
                    j.l.violate(Violation { subcheck: "resolver-invocation".into(), class: "header members".into(), observed: "resolver was not handed the token's own header (kid / typ differ)".into(), case, detail: json!({"token_header": {"alg": alg.name(), "typ": "sd+jwt", "kid": "k0"}, "resolver_saw": seen}) });
                } else {
                    j.l.count("control.by-kid.accepted");
                }
            }
            // kid values that look like key documents of OTHER issuers: the resolver is still asked
            // for the token's own iss, and a token signed by the other issuer's key is rejected
            for kid in [format!("{}.attacker.example#key-1", t.iss), format!("{}#key-1", t.iss), "#key-1".to_string(), format!("{}x", t.iss), "https://issuer.example/B#k".to_string()] {
                let mut q = t.parts.clone();
                q.jwt = mk(json!({"alg": alg.name(), "kid": kid}), 1);
                let v = verify_parts(&t, &q, &Resolver::ByIss(alg));
                if let Some(v) = &v {
                    if let Some(c) = v.resolver_calls.first() {
                        if c.iss != t.iss {
                            j.l.violate(Violation { subcheck: "resolver-invocation".into(), class: "kid naming another key document".into(), observed: "resolver asked for an iss other than the token's own".into(), case, detail: json!({"token_iss": t.iss, "kid": kid, "resolver_was_asked_for": c.iss}) });
                        }
                    }
                }
                j.l.count("fault.structural.kind.kid-document-of-other-issuer");
                // ByIss maps the token's own iss (".../A" or a variant) to some key; the token is signed by key 1:
                // accepted only if the resolver's answer for the token's OWN iss is key 1
                let own_is_key1 = !t.iss.ends_with("/A");
                if !own_is_key1 {
                    j.reject("structural", &format!("signed by issuer B's key, kid names B's document, iss says A ({} {})", alg.name(), fmt.name()), v, || json!({"kid": kid}));
                }
            }
            // signed by key 0 but naming kid k1 (-> key 1): must be rejected
            let mut q = t.parts.clone();
            q.jwt = mk(json!({"alg": alg.name(), "kid": "k1"}), 0);
            let v = verify_parts(&t, &q, &Resolver::ByKid(alg));
            j.l.count("fault.structural.kind.kid-of-other-key");
            j.reject("structural", &format!("signed by key 0, header names kid of key 1 ({} {})", alg.name(), fmt.name()), v, || json!({"jwt": q.jwt}));
        }
    }
    // ---- a key announced in the token's own header (jwk / jku / x5c) must never be used
    {
        let mut payload: Value = t.parts.payload().unwrap_or(Value::Null);
        payload["admin#forged;"] = json!(true);
        for (ha, hidx) in [(Alg::ES256, 0usize), (Alg::EdDSA, 1)] {
            let hdr = json!({"alg": ha.name(), "jwk": keys::holder_jwk_json(ha, hidx), "kid": "attacker", "jku": "https://attacker.example/keys", "x5c": ["AAAA"]});
            let forged = api::sign_raw(&hdr, &payload, ha.jwt(), &keys::holder_enc(ha, hidx));
            structural(&mut j, &format!("resigned-with-key-announced-in-header-{}", ha.name()), Some(forged), &fixed);
        }
    }
    // ---- the protected header re-encoded to other TEXT with the same typed meaning (white space,
    // escapes, member order, an added unknown parameter): the signature covers the text, not the meaning
    {
        if let Ok(hv) = crate::model::b64d(&segs[0]).map_err(|_| ()).and_then(|b| serde_json::from_slice::<Value>(&b).map_err(|_| ())) {
            let mut texts: Vec<(String, String)> = (1..=5).map(|m| (format!("respelled-{m}"), crate::model::respell(&hv, m))).collect();
            if let Some(o) = hv.as_object() {
                let rev: serde_json::Map<String, Value> = o.iter().rev().map(|(k, v)| (k.clone(), v.clone())).collect();
                texts.push(("members-reversed".into(), Value::Object(rev).to_string()));
                let mut more = o.clone();
                more.insert("zz".into(), json!(1));
                texts.push(("unknown-parameter-added".into(), Value::Object(more).to_string()));
                let mut typ = o.clone();
                typ.entry("typ").or_insert(json!("JWT"));
                texts.push(("typ-added".into(), Value::Object(typ).to_string()));
                texts.push(("trailing-newline".into(), format!("{}\n", hv)));
            }
            for (name, text) in texts {
                let h2 = crate::model::b64e(text.as_bytes());
                if h2 != segs[0] {
                    structural(&mut j, &format!("header-text-{name}-signature-kept"), Some(format!("{h2}.{}.{}", segs[1], segs[2])), &fixed);
                }
            }
        }
    }
    // ---- the header names one algorithm, the (valid!) signature was made with another one of the
    // resolver's key: the algorithm is what the header says, never what the signature happens to fit
    {
        let payload: Value = t.parts.payload().unwrap_or(Value::Null);
        for label in ["ES384", "ES512", "ES256K", "RS256", "PS256", "EdDSA", "ES256", "HS256", "HS384", "none", "Ed25519", "es256"] {
            if label == alg.name() {
                continue;
            }
            let forged = api::sign_raw(&json!({"alg": label, "typ": "JWT"}), &payload, alg.jwt(), &keys::issuer_enc(alg, 0));
            structural(&mut j, &format!("alg-mislabelled-{label}-signature-valid-under-real-alg"), Some(forged), &fixed);
        }
    }
    // ---- no `iss` in the signed payload; disclosures named iss (one unreferenced naming the signer
    // B, one referenced naming A): the issuer is what is SIGNED in clear, a disclosure cannot supply it
    if t.kb.is_none() {
        let mut pl: Value = t.parts.payload().unwrap_or(Value::Null);
        if let Some(o) = pl.as_object_mut() {
            o.remove("iss");
            let d_good = crate::model::b64e(json!(["s-iss-1", "iss", "https://issuer.example/A"]).to_string().as_bytes());
            let d_evil = crate::model::b64e(json!(["s-iss-2", "iss", "https://issuer.example/B"]).to_string().as_bytes());
            let mut sdl = o.get("_sd").and_then(Value::as_array).cloned().unwrap_or_default();
            sdl.push(json!(crate::model::digest_of(&d_good)));
            o.insert("_sd".into(), Value::Array(sdl));
            o.entry("_sd_alg").or_insert(json!("sha-256"));
            for order in 0..2 {
                let mut q = t.parts.clone();
                q.jwt = api::sign_payload(alg, 1, &pl, None);
                let extra = if order == 0 { vec![d_evil.clone(), d_good.clone()] } else { vec![d_good.clone(), d_evil.clone()] };
                q.disclosures = extra.into_iter().chain(t.parts.disclosures.iter().cloned()).collect();
                let v = verify_parts(&t, &q, &Resolver::ByIss(alg));
                j.l.count("fault.structural.kind.iss-only-in-disclosures");
                j.l.distinct(crate::rng::mix(case ^ gen::hash_str("iss-disc") ^ order));
                j.reject("structural", &format!("no signed iss, iss supplied by disclosures, signed by issuer B's key ({} {})", alg.name(), fmt.name()), v, || json!({"order": order}));
            }
        }
    }
    // ---- JSON only: an unprotected `header` member that overrides protected parameters (kid, alg):
    // the resolver sees the PROTECTED header, and a token signed by key 1 under protected kid k0 fails
    if fmt == Fmt::Json && t.kb.is_none() {
        let payload: Value = t.parts.payload().unwrap_or(Value::Null);
        let jwt = api::sign_raw(&json!({"alg": alg.name(), "kid": "k0"}), &payload, alg.jwt(), &keys::issuer_enc(alg, 1));
        if let Some(sg) = tamper::segments(&jwt) {
            for (k, unprot) in [json!({"kid": "k1"}), json!({"kid": "k1", "alg": alg.name()}), json!({"kid": "k1", "disclosures": t.parts.disclosures})].iter().enumerate() {
                for mname in ["header", "unprotected"] {
                    let mut m = serde_json::Map::new();
                    m.insert("protected".into(), json!(sg[0]));
                    m.insert("payload".into(), json!(sg[1]));
                    m.insert("signature".into(), json!(sg[2]));
                    m.insert("disclosures".into(), json!(t.parts.disclosures));
                    m.insert(mname.into(), unprot.clone());
                    let text = Value::Object(m).to_string();
                    let v = api::verify(&text, &Resolver::ByKid(alg), None, fmt);
                    if let Some(c) = v.resolver_calls.first() {
                        if c.header.get("kid").and_then(Value::as_str) != Some("k0") {
                            j.l.violate(Violation { subcheck: "resolver-invocation".into(), class: "unprotected header member".into(), observed: "resolver saw a kid other than the protected header's".into(), case, detail: json!({"document": text, "resolver_saw": c.header}) });
                        }
                    }
                    j.l.count("fault.structural.kind.unprotected-header-overrides");
                    j.l.distinct(crate::rng::mix(case ^ gen::hash_str(mname) ^ ((k as u64) << 4) ^ 0x77));
                    j.reject("structural", &format!("signed by key 1, protected kid k0, unprotected `{mname}` says k1 ({} JSON)", alg.name()), Some(v), || json!({"document": text}));
                }
            }
        }
    }
    // ---- JSON only: the protected header has NO kid (jku, x5u ...) at all and an unprotected `header` member
    // supplies one: the resolver must see exactly the protected header (no kid -> it answers with key 1),
    // so the token, which was signed with key 0, fails
    if fmt == Fmt::Json && t.kb.is_none() {
        let payload: Value = t.parts.payload().unwrap_or(Value::Null);
        let jwt = api::sign_raw(&json!({"alg": alg.name()}), &payload, alg.jwt(), &keys::issuer_enc(alg, 0));
        if let Some(sg) = tamper::segments(&jwt) {
            for (k, unprot) in [json!({"kid": "k0"}), json!({"kid": "k0", "jku": "https://issuer.example/A/jwks", "x5u": "https://issuer.example/A/cert", "cty": "json"})].iter().enumerate() {
                for mname in ["header", "unprotected"] {
                    let mut m = serde_json::Map::new();
                    m.insert("protected".into(), json!(sg[0]));
                    m.insert("payload".into(), json!(sg[1]));
                    m.insert("signature".into(), json!(sg[2]));
                    m.insert("disclosures".into(), json!(t.parts.disclosures));
                    m.insert(mname.into(), unprot.clone());
                    let text = Value::Object(m).to_string();
                    let v = api::verify(&text, &Resolver::ByKid(alg), None, fmt);
                    if let Some(c) = v.resolver_calls.first() {
                        if ["kid", "jku", "x5u", "cty"].iter().any(|k| c.header.get(*k).map(|x| !x.is_null()).unwrap_or(false)) {
                            j.l.violate(Violation { subcheck: "resolver-invocation".into(), class: "unprotected header member".into(), observed: "resolver saw parameters that are not in the protected header".into(), case, detail: json!({"document": text, "resolver_saw": c.header}) });
                        }
                    }
                    j.l.count("fault.structural.kind.unprotected-header-fills-in");
                    j.l.distinct(crate::rng::mix(case ^ gen::hash_str(mname) ^ ((k as u64) << 4) ^ 0x78));
                    j.reject("structural", &format!("signed by key 0, no protected kid, unprotected `{mname}` says k0, resolver keyed by kid ({} JSON)", alg.name()), Some(v), || json!({"document": text}));
                }
            }
        }
    }
    // ---- look-alikes of the `iss` member in the payload (other case, blanks) naming another issuer,
    // placed before / after the real one: the resolver is asked for the member called exactly "iss"
    if t.kb.is_none() && t.iss.ends_with("/A") {
        let payload: Value = t.parts.payload().unwrap_or(Value::Null);
        for (k, twin) in ["ISS", "Iss", "iss ", " iss", "iSs", "issuer", "iss\u{0}"].iter().enumerate() {
            for first in [true, false] {
                let mut m = serde_json::Map::new();
                if first {
                    m.insert(twin.to_string(), json!("https://issuer.example/B"));
                }
                for (kk, vv) in payload.as_object().cloned().unwrap_or_default() {
                    m.insert(kk, vv);
                }
                if !first {
                    m.insert(twin.to_string(), json!("https://issuer.example/B"));
                }
                let mut q = t.parts.clone();
                q.jwt = api::sign_payload(alg, 1, &Value::Object(m), None);
                let v = verify_parts(&t, &q, &Resolver::ByIss(alg));
                if let Some(v) = &v {
                    if let Some(c) = v.resolver_calls.first() {
                        if c.iss != t.iss {
                            j.l.violate(Violation { subcheck: "resolver-invocation".into(), class: "look-alike of the iss member".into(), observed: "resolver asked for the value of a member that is not called iss".into(), case, detail: json!({"payload_iss": t.iss, "look_alike_member": twin, "resolver_was_asked_for": c.iss}) });
                        }
                    }
                }
                j.l.count("fault.structural.kind.iss-look-alike-member");
                j.l.distinct(crate::rng::mix(case ^ gen::hash_str("iss-twin") ^ ((k as u64) << 1) ^ first as u64));
                j.reject("structural", &format!("signed by issuer B's key, a member looking like iss says B, iss says A ({} {})", alg.name(), fmt.name()), v, || json!({"member": twin, "first": first}));
            }
        }
    }
    // ---- two tokens with the SAME kid in one process: the key is whatever the resolver answers for
    // THIS verification, not what an earlier verification under that kid used
    if t.kb.is_none() {
        let payload: Value = t.parts.payload().unwrap_or(Value::Null);
        let kid = format!("shared-kid-{}", case % 3);
        let hdr = json!({"alg": alg.name(), "kid": kid});
        let mut q = t.parts.clone();
        q.jwt = api::sign_raw(&hdr, &payload, alg.jwt(), &keys::issuer_enc(alg, 0));
        // accepted under key 0 ...
        if let Some(v) = verify_parts(&t, &q, &fixed) {
            j.l.evals += 1;
            if v.out.is_ok() {
                j.l.count("control.kid-token.accepted");
            }
        }
        // ... then the resolver's answer for the same token changes (key rotation): refused
        let v = verify_parts(&t, &q, &Resolver::Fixed(alg, 1));
        j.l.count("fault.structural.kind.same-kid-resolver-answer-changed");
        j.reject("structural", &format!("token with a kid seen before, resolver now answers with another key ({} {})", alg.name(), fmt.name()), v, || json!({"kid": kid}));
        // ... and another token with the same kid, signed by key 1, while the resolver still says key 0
        let mut evil = payload.clone();
        evil["admin#kid;"] = json!(true);
        let mut q2 = t.parts.clone();
        q2.jwt = api::sign_raw(&hdr, &evil, alg.jwt(), &keys::issuer_enc(alg, 1));
        let v1 = verify_parts(&t, &q2, &Resolver::Fixed(alg, 1)); // accepted under key 1 (control)
        if let Some(v1) = v1 {
            j.l.evals += 1;
            if v1.out.is_ok() {
                j.l.count("control.kid-token.accepted");
            }
        }
        let v = verify_parts(&t, &q2, &fixed);
        j.reject("structural", &format!("same kid as an accepted token, signed by another key ({} {})", alg.name(), fmt.name()), v, || json!({"kid": kid}));
    }
    // ---- claims replicated as header parameters (RFC 7519 §5.3): a header `iss` that names another
    // issuer must not redirect the key look-up; the resolver is asked for the PAYLOAD's iss
    if t.kb.is_none() && t.iss.ends_with("/A") {
        let payload: Value = t.parts.payload().unwrap_or(Value::Null);
        for (k, hdr) in [
            json!({"alg": alg.name(), "iss": "https://issuer.example/B"}),
            json!({"alg": alg.name(), "iss": "https://issuer.example/B", "sub": "x", "aud": "y"}),
            json!({"alg": alg.name(), "issuer": "https://issuer.example/B", "iss ": "https://issuer.example/B"}),
        ].iter().enumerate() {
            let mut q = t.parts.clone();
            q.jwt = api::sign_raw(hdr, &payload, alg.jwt(), &keys::issuer_enc(alg, 1));
            let v = verify_parts(&t, &q, &Resolver::ByIss(alg));
            if let Some(v) = &v {
                if let Some(c) = v.resolver_calls.first() {
                    if c.iss != t.iss {
                        j.l.violate(Violation { subcheck: "resolver-invocation".into(), class: "iss replicated in the header".into(), observed: "resolver asked for the header's iss instead of the payload's".into(), case, detail: json!({"payload_iss": t.iss, "header": hdr, "resolver_was_asked_for": c.iss}) });
                    }
                }
            }
            j.l.count("fault.structural.kind.header-iss-of-other-issuer");
            j.l.distinct(crate::rng::mix(case ^ gen::hash_str("hdr-iss") ^ k as u64));
            j.reject("structural", &format!("signed by issuer B's key, header iss says B, payload iss says A ({} {})", alg.name(), fmt.name()), v, || json!({"header": hdr}));
        }
    }
    // ---- ES256: a signature whose r or s starts with a zero octet, with that octet cut off (a
    // "repair" of short big-integer signatures would accept it); such signatures are 1 in 128, so
    // the payload is re-signed until one turns up
    if alg == Alg::ES256 && case % 2 == 0 {
        let payload: Value = t.parts.payload().unwrap_or(Value::Null);
        for _ in 0..2000 {
            let jwt = api::sign_payload(alg, 0, &payload, None);
            let sg = tamper::segments(&jwt).unwrap();
            let raw = crate::model::b64d(&sg[2]).unwrap_or_default();
            if raw.len() == 64 && (raw[0] == 0 || raw[32] == 0) {
                let mut cut: Vec<Vec<u8>> = vec![];
                if raw[0] == 0 {
                    cut.push(raw[1..].to_vec());
                }
                if raw[32] == 0 {
                    cut.push([&raw[..32], &raw[33..]].concat());
                }
                for (k, c) in cut.iter().enumerate() {
                    structural(&mut j, &format!("signature-leading-zero-octet-cut-{k}"), Some(format!("{}.{}.{}", sg[0], sg[1], crate::model::b64e(c))), &fixed);
                }
                break;
            }
        }
    }
    // ---- Compact only: the whole presentation folded like PEM / MIME text (a line break after every
    // 64th or 76th character, LF or CRLF), and with a trailing line break
    if fmt == Fmt::Compact {
        let whole = t.parts.to_compact();
        for width in [64usize, 76, 72, 80] {
            for nl in ["\n", "\r\n"] {
                let folded: String = whole.as_bytes().chunks(width).map(|c| String::from_utf8_lossy(c).to_string()).collect::<Vec<_>>().join(nl);
                for text in [folded.clone(), format!("{folded}{nl}")] {
                    if text == whole {
                        continue;
                    }
                    let v = api::verify(&text, &fixed, t.kb.as_ref().map(|(a, n)| (a.as_str(), n.as_str())), fmt);
                    j.l.count("fault.structural.kind.folded-presentation");
                    j.l.distinct(crate::rng::mix(case ^ gen::hash_str("fold") ^ (width as u64) << 8 ^ nl.len() as u64));
                    j.reject("structural", &format!("presentation folded at {width} characters ({} Compact)", alg.name()), Some(v), || json!({"width": width, "crlf": nl.len() == 2}));
                }
            }
        }
    }
    // ---- transfer encodings of single characters: a parser that "repairs" percent-escapes, the
    // standard base64 alphabet, HTML entities or '+' for blank would restore the signed text
    {
        let jwt = &t.parts.jwt;
        let mut variants: Vec<(String, String)> = vec![];
        let pos = r.usize(jwt.len());
        let c = jwt.as_bytes()[pos];
        variants.push(("percent-escape of one character".into(), format!("{}%{:02X}{}", &jwt[..pos], c, &jwt[pos + 1..])));
        variants.push(("percent-escape (lower case) of one character".into(), format!("{}%{:02x}{}", &jwt[..pos], c, &jwt[pos + 1..])));
        variants.push(("percent-escape of the dots".into(), jwt.replace('.', "%2E")));
        variants.push(("percent-escape of the first dot".into(), jwt.replacen('.', "%2e", 1)));
        variants.push(("html entity for a dot".into(), jwt.replacen('.', "&#46;", 1)));
        variants.push(("backslash-u escape of one character".into(), format!("{}\\u{:04x}{}", &jwt[..pos], c, &jwt[pos + 1..])));
        if jwt.contains('-') {
            variants.push(("'-' written as '+' (standard alphabet)".into(), jwt.replacen('-', "+", 1)));
            variants.push(("every '-' written as '+'".into(), jwt.replace('-', "+")));
        }
        if jwt.contains('_') {
            variants.push(("'_' written as '/' (standard alphabet)".into(), jwt.replacen('_', "/", 1)));
            variants.push(("standard alphabet throughout".into(), jwt.replace('-', "+").replace('_', "/")));
        }
        for (name, v) in variants {
            structural(&mut j, &format!("transfer-encoding: {name}"), Some(v), &fixed);
        }
    }
    // ---- a key announced in the token's own iss (did:jwk, JWK text, data: URL, thumbprint-like)
    // must never be used: the only source of the verification key is the resolver
    {
        use base64::Engine;
        for (ha, hidx) in [(Alg::ES256, 0usize), (Alg::EdDSA, 1)] {
            let full = keys::holder_jwk_json(ha, hidx);
            let mut minimal = full.clone();
            if let Some(o) = minimal.as_object_mut() {
                o.retain(|k, _| ["kty", "crv", "x", "y"].contains(&k.as_str()));
            }
            for (ji, jwk) in [full, minimal].iter().enumerate() {
                let txt = jwk.to_string();
                let b = crate::model::b64e(txt.as_bytes());
                let isses = [
                    format!("did:jwk:{b}"),
                    format!("did:jwk:{b}#0"),
                    format!("did:jwk:{}", base64::engine::general_purpose::URL_SAFE.encode(txt.as_bytes())),
                    txt.clone(),
                    format!("data:application/jwk+json;base64,{}", base64::engine::general_purpose::STANDARD.encode(txt.as_bytes())),
                    format!("jwk:{b}"),
                    format!("https://self-issued.me/v2#{b}"),
                    format!("urn:ietf:params:oauth:jwk-thumbprint:sha-256:{}", crate::model::digest_of(&txt)),
                ];
                for (k, iss) in isses.iter().enumerate() {
                    let mut payload: Value = t.parts.payload().unwrap_or(Value::Null);
                    payload["iss"] = json!(iss);
                    let forged = api::sign_raw(&json!({"alg": ha.name(), "typ": "sd+jwt"}), &payload, ha.jwt(), &keys::holder_enc(ha, hidx));
                    structural(&mut j, &format!("resigned-with-key-announced-in-iss-{}-{ji}-{k}", ha.name()), Some(forged), &fixed);
                }
            }
        }
    }
    // ---- JSON only: a member given twice, one copy intact and one tampered (a reader that checks the
    // signature over one copy and takes the claims from the other must not exist): the outcome is
    // an error, or exactly the claims of the intact token
    if fmt == Fmt::Json {
        let control_claims = control.out.clone().ok();
        let evil = tamper::reencode_segment(&t.parts.jwt, 1, |v| { v["admin#dup;"] = json!(true); }).and_then(|x| tamper::segments(&x));
        if let (Some(evil), Some(good_claims)) = (evil, control_claims) {
            let member = |k: &str, v: &Value| format!("{}:{}", json!(k), v);
            let rest = |skip: &str| -> Vec<String> {
                let mut out = vec![];
                for (k, v) in [("protected", json!(segs[0])), ("payload", json!(segs[1])), ("signature", json!(segs[2])), ("disclosures", json!(t.parts.disclosures))] {
                    if k != skip {
                        out.push(member(k, &v));
                    }
                }
                if let Some(k) = &t.parts.kb {
                    out.push(member("kb_jwt", &json!(k)));
                }
                out
            };
            let mut docs: Vec<(String, String)> = vec![];
            for (name, first, second) in [("payload evil-first", &evil[1], &segs[1]), ("payload evil-last", &segs[1], &evil[1])] {
                let mut m = rest("payload");
                m.insert(0, member("payload", &json!(first)));
                m.push(member("payload", &json!(second)));
                docs.push((name.to_string(), format!("{{{}}}", m.join(","))));
            }
            for (name, first, second) in [("signature empty-first", "", segs[2].as_str()), ("signature empty-last", segs[2].as_str(), "")] {
                let mut m = rest("signature");
                m.insert(0, member("signature", &json!(first)));
                m.push(member("signature", &json!(second)));
                docs.push((name.to_string(), format!("{{{}}}", m.join(","))));
            }
            {
                let forged = crate::model::b64e(json!(["s", "admin#dup2;", true]).to_string().as_bytes());
                let mut with = t.parts.disclosures.clone();
                with.push(forged);
                let mut m = rest("disclosures");
                m.insert(0, member("disclosures", &json!(with)));
                m.push(member("disclosures", &json!(t.parts.disclosures)));
                docs.push(("disclosures twice".to_string(), format!("{{{}}}", m.join(","))));
            }
            for (name, doc) in docs {
                let v = api::verify(&doc, &fixed, t.kb.as_ref().map(|(a, n)| (a.as_str(), n.as_str())), fmt);
                j.l.evals += 1;
                j.l.count("fault.structural.kind.json-member-twice");
                j.l.distinct(crate::rng::mix(case ^ gen::hash_str(&name)));
                match &v.out {
                    Outcome::Err(_) => j.l.count("fault.structural.rejected"),
                    Outcome::Ok(c) if *c == good_claims => j.l.count("fault.structural.member-twice.intact-copy-used"),
                    Outcome::Ok(c) => j.l.violate(Violation {
                        subcheck: "tampered-token-accepted".into(),
                        class: format!("JSON member given twice: {name} ({})", alg.name()),
                        observed: "Ok with claims other than the intact token's".into(),
                        case,
                        detail: json!({"document": doc, "claims": c}),
                    }),
                    p @ Outcome::Panic(..) => j.l.violate(Violation { subcheck: "panic".into(), class: format!("JSON member given twice: {name}"), observed: p.panic_signature().unwrap(), case, detail: json!({"document": doc}) }),
                }
            }
        }
    }
    // ---- JSON only: `payload` given as a JSON OBJECT (the decoded claims, or altered claims) instead of
    // the signed base64url text
    if fmt == Fmt::Json {
        if let Ok(pl) = t.parts.payload() {
            let mut evil = pl.clone();
            evil["admin#obj;"] = json!(true);
            for (k, pv) in [pl.clone(), evil, json!([pl.clone()]), json!(pl.to_string())].iter().enumerate() {
                let mut m = serde_json::Map::new();
                m.insert("protected".into(), json!(segs[0]));
                m.insert("payload".into(), pv.clone());
                m.insert("signature".into(), json!(segs[2]));
                m.insert("disclosures".into(), json!(t.parts.disclosures));
                if let Some(kb) = &t.parts.kb {
                    m.insert("kb_jwt".into(), json!(kb));
                }
                let text = Value::Object(m).to_string();
                let v = api::verify(&text, &fixed, t.kb.as_ref().map(|(a, n)| (a.as_str(), n.as_str())), fmt);
                j.l.count("fault.structural.kind.payload-member-not-the-signed-text");
                j.l.distinct(crate::rng::mix(case ^ gen::hash_str("payload-object") ^ k as u64));
                j.reject("structural", &format!("payload member is a JSON value, not the signed text ({} JSON)", alg.name()), Some(v), || json!({"variant": k}));
            }
        }
    }
    // ---- two tamperings that are each rejected, combined: the payload's last character replaced by
    // one with other trailing bits AND a signature segment that is not base64url at all
    {
        let pl_seg = &segs[1];
        let last = pl_seg.chars().last().unwrap_or('A');
        let idx = tamper::B64URL.find(last).unwrap_or(0);
        for d in 1..4usize {
            let alt = tamper::B64URL.as_bytes()[(idx & !3) | ((idx + d) & 3)] as char;
            let p2 = format!("{}{}", &pl_seg[..pl_seg.len() - 1], alt);
            // also a payload that says something else, with the same kind of last character
            let evil = tamper::reencode_segment(&t.parts.jwt, 1, |v| { v["admin#2c;"] = json!(true); }).and_then(|x| tamper::segments(&x)).map(|s3| s3[1].clone());
            for p_use in [Some(p2.clone()), evil.map(|e| { let l = e.chars().last().unwrap_or('A'); let i = tamper::B64URL.find(l).unwrap_or(0); format!("{}{}", &e[..e.len() - 1], tamper::B64URL.as_bytes()[(i & !3) | ((i + d) & 3)] as char) })].into_iter().flatten() {
                for sig in ["!", "", "*", "====", &segs[2][..segs[2].len() - 1], "\u{e9}"] {
                    structural(&mut j, &format!("payload-trailing-bits-{d}-and-undecodable-signature"), Some(format!("{}.{}.{}", segs[0], p_use, sig)), &fixed);
                }
            }
        }
    }
    // ---- Compact only: the whole presentation inside a wrapper (quotes, brackets, a scheme prefix)
    if fmt == Fmt::Compact {
        let whole = t.parts.to_compact();
        for (pre, post) in [("\"", "\""), ("'", "'"), ("<", ">"), ("(", ")"), ("[", "]"), ("{", "}"), ("`", "`"), ("Bearer ", ""), ("DPoP ", ""), ("bearer  ", ""), ("Basic ", ""), ("\"", ""), ("jwt:", ""), ("\u{feff}", "")] {
            // (a suffix alone lands in the key-binding slot behind the last '~', which is not part of
            // the issuer-signed JWT and is ignored when no key binding is requested: not a fault here)
            let text = format!("{pre}{whole}{post}");
            let v = api::verify(&text, &fixed, t.kb.as_ref().map(|(a, n)| (a.as_str(), n.as_str())), fmt);
            j.l.count("fault.structural.kind.wrapped-presentation");
            j.l.distinct(crate::rng::mix(case ^ gen::hash_str(pre) ^ gen::hash_str(post).rotate_left(9)));
            j.reject("structural", &format!("presentation wrapped in {pre:?}…{post:?} ({} Compact)", alg.name()), Some(v), || json!({"pre": pre, "post": post}));
        }
    }
    // ---- the same credential signed by an issuer of another algorithm family (RSA 2048 / 3072 / 4096 with
    // PKCS#1 v1.5 and PSS, P-384, HS384 / HS512): octet-level edits of the signature value
    if case % 8 == 5 {
        let names: Vec<&str> = keys::EXTRA_ALGS.iter().copied().chain(keys::BIG_RSA.iter().copied()).collect();
        let an = names[((case / 8) % names.len() as u64) as usize];
        let ex = Resolver::Extra(an);
        let mut h = jsonwebtoken::Header::new(keys::extra_alg(an));
        h.typ = None;
        if let Some(jwt) = t.parts.payload().ok().and_then(|pl| jsonwebtoken::encode(&h, &pl, &keys::extra_enc(an)).ok()) {
            let sg = tamper::segments(&jwt).unwrap();
            let raw = crate::model::b64d(&sg[2]).unwrap_or_default();
            let mut p = t.parts.clone();
            p.kb = None;
            p.jwt = jwt.clone();
            let ctl = p.encode(fmt, 0).map(|text| api::verify(&text, &ex, None, fmt));
            j.l.evals += 1;
            match ctl.as_ref().map(|v| &v.out) {
                Some(Outcome::Ok(_)) => {
                    j.l.count("control.other-signing-algorithms.accepted");
                    let mut edits: Vec<(String, Vec<u8>)> = vec![];
                    for k in [1usize, 2, 3, 32, 63, 64] {
                        edits.push((format!("{k} zero octet(s) in front"), std::iter::repeat(0u8).take(k).chain(raw.iter().copied()).collect()));
                    }
                    edits.push(("a zero octet behind".into(), raw.iter().copied().chain([0u8]).collect()));
                    edits.push(("first octet dropped".into(), raw[1.min(raw.len())..].to_vec()));
                    edits.push(("last octet dropped".into(), raw[..raw.len().saturating_sub(1)].to_vec()));
                    edits.push(("all zero".into(), vec![0u8; raw.len()]));
                    edits.push(("empty".into(), vec![]));
                    for _ in 0..4 {
                        let mut f = raw.clone();
                        if !f.is_empty() {
                            let at = r.usize(f.len());
                            f[at] ^= 1 << r.below(8);
                        }
                        edits.push(("one bit flipped".into(), f));
                    }
                    for (name, sig) in edits {
                        if sig == raw {
                            continue;
                        }
                        p.jwt = format!("{}.{}.{}", sg[0], sg[1], crate::model::b64e(&sig));
                        let v = p.encode(fmt, 0).map(|text| api::verify(&text, &ex, None, fmt));
                        j.l.count("fault.structural.kind.other-signing-algorithms");
                        j.l.distinct(crate::rng::mix(case ^ gen::hash_str(&name) ^ gen::hash_str(an)));
                        j.reject("structural", &format!("signature value with {name} ({an} {})", fmt.name()), v, || json!({"alg": an, "edit": name}));
                    }
                }
                Some(other) => j.l.violate(Violation {
                    subcheck: "control-rejected".into(),
                    class: format!("{an} {}", fmt.name()),
                    observed: other.panic_signature().unwrap_or_else(|| other.describe()),
                    case,
                    detail: json!({"alg": an}),
                }),
                None => {}
            }
        }
    }
    // ---- the whole presentation (either form) in a transfer encoding: base64url / base64 of the text, hex,
    // percent-escapes throughout, the text as a JSON string
    if let Some(whole) = t.parts.encode(fmt, 0) {
        use base64::Engine;
        let std_b64 = base64::engine::general_purpose::STANDARD.encode(whole.as_bytes());
        let variants: Vec<(&str, String)> = vec![
            ("base64url", crate::model::b64e(whole.as_bytes())),
            ("base64url twice", crate::model::b64e(crate::model::b64e(whole.as_bytes()).as_bytes())),
            ("base64 (padded, standard alphabet)", std_b64.clone()),
            ("base64url (padded)", std_b64.replace('+', "-").replace('/', "_")),
            ("hex", whole.bytes().map(|b| format!("{b:02x}")).collect()),
            ("percent-escapes throughout", whole.bytes().map(|b| format!("%{b:02X}")).collect()),
            ("a JSON string", Value::String(whole.clone()).to_string()),
        ];
        for (name, text) in variants {
            let v = api::verify(&text, &fixed, t.kb.as_ref().map(|(a, n)| (a.as_str(), n.as_str())), fmt);
            j.l.count("fault.structural.kind.transfer-encoded-presentation");
            j.l.distinct(crate::rng::mix(case ^ gen::hash_str(name) ^ 0x7e57));
            j.reject("structural", &format!("whole presentation as {name} ({} {})", alg.name(), fmt.name()), Some(v), || json!({"encoding": name}));
        }
    }
    // ---- JSON only: the flattened members are NOT intact, but an unknown member carries the intact
    // compact JWT (an "envelope" reader that prefers such a member would accept)
    if fmt == Fmt::Json {
        let broken: Vec<(&str, [String; 3])> = vec![
            ("signature-emptied", [segs[0].clone(), segs[1].clone(), String::new()]),
            ("payload-changed", {
                let e = tamper::reencode_segment(&t.parts.jwt, 1, |v| { v["admin#env;"] = json!(true); }).and_then(|x| tamper::segments(&x));
                e.unwrap_or([segs[0].clone(), format!("{}A", segs[1]), segs[2].clone()])
            }),
            ("members-empty", [String::new(), String::new(), String::new()]),
        ];
        for (bname, mem) in &broken {
            for mname in ["jwt", "sd_jwt", "sd-jwt", "token", "compact", "jws", "credential", "issuer_signed_jwt", "vp_token", "serialized", "JWT", "sdjwt"] {
                let mut m = serde_json::Map::new();
                m.insert("protected".into(), json!(mem[0]));
                m.insert("payload".into(), json!(mem[1]));
                m.insert("signature".into(), json!(mem[2]));
                m.insert("disclosures".into(), json!(t.parts.disclosures));
                if let Some(k) = &t.parts.kb {
                    m.insert("kb_jwt".into(), json!(k));
                }
                let mut texts = vec![];
                let mut m1 = m.clone();
                m1.insert(mname.into(), json!(t.parts.jwt));
                texts.push(Value::Object(m1).to_string());
                let mut m2 = serde_json::Map::new();
                m2.insert(mname.into(), json!(t.parts.to_compact()));
                for (k, v) in &m {
                    m2.insert(k.clone(), v.clone());
                }
                texts.push(Value::Object(m2).to_string());
                for (ti, text) in texts.iter().enumerate() {
                    let v = api::verify(text, &fixed, t.kb.as_ref().map(|(a, n)| (a.as_str(), n.as_str())), fmt);
                    j.l.count("fault.structural.kind.intact-jwt-only-in-unknown-member");
                    j.l.distinct(crate::rng::mix(case ^ gen::hash_str(mname) ^ gen::hash_str(bname) ^ ti as u64));
                    j.reject("structural", &format!("flattened members {bname}, intact JWT only in an unknown member ({} JSON)", alg.name()), Some(v), || json!({"member": mname, "broken": bname, "document": text}));
                }
            }
        }
    }
    // ---- a resolver that itself verifies ANOTHER (honest) token on the same thread before it hands
    // out the right key: the outer, forged token must still be judged on its own bytes
    {
        let inner = t.parts.encode(fmt, 0).unwrap_or_default();
        let reent = Resolver::Reentrant(alg, 0, inner, fmt);
        let payload: Value = t.parts.payload().unwrap_or(Value::Null);
        let mut evil = payload.clone();
        evil["admin#re;"] = json!(true);
        structural(&mut j, "re-entrant-resolver-forged-by-other-key", Some(api::sign_payload(alg, 1, &evil, None)), &reent);
        structural(&mut j, "re-entrant-resolver-payload-changed", tamper::reencode_segment(&t.parts.jwt, 1, |v| { v["admin#re2;"] = json!(true); }), &reent);
        structural(&mut j, "re-entrant-resolver-signature-emptied", Some(format!("{}.{}.", segs[0], segs[1])), &reent);
        // control: the honest token under the same resolver is accepted with its own claims
        let v = verify_parts(&t, &t.parts, &reent);
        if let Some(v) = v {
            j.l.evals += 1;
            match (&v.out, &control.out) {
                (Outcome::Ok(a), Outcome::Ok(b)) if a == b => j.l.count("control.re-entrant-resolver.accepted"),
                (o, _) => j.l.violate(Violation { subcheck: "control-rejected".into(), class: "honest token, re-entrant resolver".into(), observed: o.panic_signature().unwrap_or_else(|| o.describe()).chars().take(200).collect(), case, detail: json!({"token": token_desc}) }),
            }
        }
    }
    // signed by a different key of the same family / resolver returning other keys
    {
        let payload: Value = t.parts.payload().unwrap();
        let other = api::sign_payload(alg, 1, &payload, None);
        structural(&mut j, "signed-by-other-key-same-family", Some(other), &fixed);
    }
    let with_resolver = |j: &mut Judge, name: &str, resolver: Resolver| {
        let v = verify_parts(&t, &t.parts, &resolver);
        j.l.distinct(crate::rng::mix(case ^ gen::hash_str(name)));
        j.l.count(&format!("fault.structural.kind.{name}"));
        j.reject("structural", &format!("{name} ({} {})", alg.name(), fmt.name()), v, || json!({"fault": name, "resolver": format!("{resolver:?}")}));
    };
    with_resolver(&mut j, "resolver-returns-second-key-same-family", Resolver::Fixed(alg, 1));
    for other in ALL_ALGS {
        if other != alg {
            with_resolver(&mut j, &format!("resolver-returns-{}-key", other.name()), Resolver::Fixed(other, 0));
        }
    }
    if alg != Alg::HS256 {
        with_resolver(&mut j, "resolver-returns-secret-of-public-bytes", Resolver::SecretFromPublic(alg, 0));
    }
    // resolver keyed by iss, token claims the other issuer (signed by A's key, says B)
    if let Some(tb) = make_token(ctx, &mut r, alg, fmt, 0, "https://issuer.example/B", bound) {
        let v = verify_parts(&tb, &tb.parts, &Resolver::ByIss(alg));
        j.l.count("fault.structural.kind.iss-of-other-issuer");
        if let Some(v) = &v {
            // the resolver must have been asked for B, the token's own claim
            if v.resolver_calls.len() == 1 && v.resolver_calls[0].iss != "https://issuer.example/B" {
                j.l.violate(Violation { subcheck: "resolver-invocation".into(), class: "iss-of-other-issuer".into(), observed: "resolver asked for an iss other than the token's".into(), case, detail: json!({"calls": format!("{:?}", v.resolver_calls)}) });
            }
        }
        j.reject("structural", &format!("token signed by A claims iss B ({} {})", alg.name(), fmt.name()), v, || json!({"jwt": tb.parts.jwt}));
        // control for the keyed resolver: B's own token is accepted
        if let Some(tb_ok) = make_token(ctx, &mut r, alg, fmt, 1, "https://issuer.example/B", bound) {
            let v = verify_parts(&tb_ok, &tb_ok.parts, &Resolver::ByIss(alg)).unwrap();
            j.l.evals += 1;
            if v.out.is_ok() && v.resolver_calls.len() == 1 && v.resolver_calls[0].iss == "https://issuer.example/B" {
                j.l.count("control.by-iss.accepted");
            } else {
                j.l.violate(Violation { subcheck: "control-rejected".into(), class: "resolver keyed by iss".into(), observed: v.out.panic_signature().unwrap_or_else(|| v.out.describe()), case, detail: json!({"jwt": tb_ok.parts.jwt, "calls": format!("{:?}", v.resolver_calls)}) });
            }
        }
    }
}
