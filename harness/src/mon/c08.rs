//! C08 — ill-formed issuer-signed structures are rejected as the specification requires.
//! Differential against `Spec` (model::spec_verify): tokens are built by the harness's own
//! encoder, signed with the test issuer key through jsonwebtoken, and carry stratified
//! deviations from well-formedness. `Err` is always admissible; `Unspecified` asserts nothing.

use crate::api::{self, Outcome, Resolver};
use crate::evidence::{run_cases, Ctx, Local, Report, Violation};
use crate::keys::ALL_ALGS;
use crate::model::{self, b64e, digest_of, Fmt, Parts, SpecOut, FMTS};
use crate::rng::Rng;
use serde_json::{json, Map, Value};

const STREAM: u64 = 8;

pub const DEVIATIONS: [&str; 36] = [
    "none",
    "member-arity",
    "member-nonarray",
    "name-nonstring",
    "name-reserved",
    "name-collides-visible",
    "name-collides-disclosed",
    "name-_sd_alg",
    "dup-digest-in-sd",
    "dup-digest-in-array",
    "dup-unmatched",
    "sd-nonstring-entry",
    "sd-nonarray",
    "nested-_sd_alg",
    "dots-key-in-object",
    "elem-arity",
    "elem-nonarray",
    "placeholder-extra",
    "placeholder-nonstring",
    "salt-nonstring",
    "unreferenced-disclosure",
    "top-_sd_alg-sha-256",
    "top-_sd_alg-other",
    "top-_sd_alg-nonstring",
    "top-_sd_alg-absent",
    "disclosure-not-json",
    "digest-decorated-in-sd",
    "digest-decorated-in-array",
    "sd-malformed-container",
    "placeholder-outside-array",
    "name-collides-equal-value",
    "disclosure-trailing-text",
    "disclosure-invalid-utf8",
    "dup-digest-far",
    "respelled-twin",
    "compose",
];

pub fn run(ctx: &Ctx) -> Report {
    let n = ctx.cases(300_000, 12_000_000);
    let local = run_cases(ctx, n, |case, l| one_case(ctx, case, l));
    let mut rep = Report::new(
        "fault_enumeration",
        "case i: a (payload, disclosures) pair produced by the harness's own encoder (nested objects/arrays depth<=3, hidden members and \
         elements with present or withheld disclosures, decoys), with deviation kind i%36 forced at a random eligible site (kind \
         'compose': 2-3 random deviations; 'none': well-formed control that must be accepted), signed with the test issuer key \
         (alg=(i/36)%3), format=(i/108)%2. Oracle: specification verifier Spec (draft-07 §6.1). evaluations = tokens verified. \
         Distinct = (payload shape, deviation set, format, alg); non-trivial = at least one deviation applied or >=1 referenced \
         disclosure.",
        local,
    );
    rep.assumptions = vec![
        "Spec is the harness's reading of draft-ietf-oauth-selective-disclosure-jwt-07 §6.1 steps 3-4; where the draft is silent it returns Unspecified and nothing is asserted".into(),
        "unreferenced disclosures are ignored (permitted by the given properties C03/C08)".into(),
    ];
    rep.floor("control.accepted-with-spec-claims", 500);
    rep.floor("bucket.agree-accept", 1000);
    rep.floor("bucket.both-reject", 1000);
    for d in DEVIATIONS.iter().filter(|d| **d != "none" && **d != "compose") {
        rep.floor(&format!("deviation.applied.{d}"), 20);
    }
    rep
}

struct B<'a> {
    r: &'a mut Rng,
    discs: Vec<String>,
    id: u32,
    applied: Vec<&'static str>,
    pool: Vec<String>,
    force: &'static str,
    forced_done: bool,
    extra_pct: u64,
    used_registered: Vec<&'static str>,
}

impl<'a> B<'a> {
    fn name(&mut self) -> String {
        self.id += 1;
        // now and then a member is called like a registered claim (cnf, address, ...): digest
        // lists and placeholders below such a member are processed like anywhere else
        if self.r.chance(12) {
            let reg = *self.r.pick(&["cnf", "address", "vct", "status", "jti", "updated_at", "nationalities", "jwk", "iat"]);
            if !self.used_registered.contains(&reg) {
                self.used_registered.push(reg);
                return reg.to_string();
            }
        }
        format!("k{}", self.id)
    }
    fn dev(&mut self, name: &'static str) -> bool {
        if self.force == name && !self.forced_done && self.r.chance(65) {
            self.forced_done = true;
            self.applied.push(name);
            return true;
        }
        if self.extra_pct > 0 && self.r.chance(self.extra_pct) && self.r.chance(25) {
            self.applied.push(name);
            return true;
        }
        false
    }
    /// base64url of the disclosure text; two text-level deviations apply to presented,
    /// referenced disclosures: non-blank text after the closing bracket, and a byte that is not
    /// valid UTF-8 inside a string — neither is a JSON value any more
    fn encode_disclosure(&mut self, arr: &Value, present: bool) -> String {
        let text = arr.to_string();
        if present && arr.is_array() && self.dev("disclosure-trailing-text") {
            let tail = *self.r.pick(&["]", "x", "[]", " ,", "}", "\"\"", " null", "\u{0}", "//c", &text]);
            return b64e(format!("{text}{tail}").as_bytes());
        }
        if present && arr.is_array() && text.contains('"') && self.dev("disclosure-invalid-utf8") {
            let mut bytes = text.clone().into_bytes();
            // put the offending byte(s) right behind the first quote, i.e. inside a string
            let at = bytes.iter().position(|b| *b == b'"').unwrap_or(0) + 1;
            let bad: &[u8] = match self.r.below(4) {
                0 => &[0xFF],
                1 => &[0xC3],
                2 => &[0xE2, 0x82],
                _ => &[0xED, 0xA0, 0x80],
            };
            for (k, b) in bad.iter().enumerate() {
                bytes.insert(at + k, *b);
            }
            return b64e(&bytes);
        }
        b64e(text.as_bytes())
    }
    fn leaf(&mut self) -> Value {
        match self.r.below(6) {
            0 => json!(self.r.below(100)),
            1 => json!(null),
            2 => json!(true),
            3 => json!([]),
            _ => json!(format!("v{}", self.r.below(1000))),
        }
    }
    fn val(&mut self, depth: u32) -> Value {
        if depth == 0 {
            return self.leaf();
        }
        match self.r.below(4) {
            0 => self.obj(depth - 1),
            1 => self.arr(depth - 1),
            _ => self.leaf(),
        }
    }
    fn salt(&mut self) -> Value {
        self.id += 1;
        if self.dev("salt-nonstring") {
            json!(self.id)
        } else if self.r.chance(3) {
            // salts are any strings: empty, one character, blanks, not base64url at all
            json!(*self.r.pick(&["", "A", " ", "=", "\u{e9}", "AAAA"]))
        } else {
            json!(format!("salt{}", self.id))
        }
    }
    fn obj(&mut self, depth: u32) -> Value {
        let mut m = Map::new();
        let mut sd: Vec<Value> = vec![];
        let n = if depth >= 2 { 2 + self.r.below(3) } else { self.r.below(4) };
        let mut disclosed_names: Vec<String> = vec![];
        for _ in 0..n {
            let k = self.name();
            let v = self.val(depth);
            if self.r.chance(50) {
                let present = self.r.chance(75);
                let salt = self.salt();
                let arr = if self.dev("member-arity") {
                    let l = *self.r.pick(&[0usize, 1, 2, 4, 5]);
                    let mut a = vec![salt, json!(k), v];
                    a.resize(l, json!("x"));
                    Value::Array(a)
                } else if self.dev("member-nonarray") {
                    // incl. a JSON STRING whose text is the well-formed disclosure array (serialised twice)
                    let twice = json!(json!([salt, k, v]).to_string());
                    let twice_ws = json!(format!(" {}", json!([salt, k, v])));
                    let indexed = json!({"0": salt, "1": k, "2": v});
                    // ... and OBJECTS with the field names a typed decoder would give the three positions
                    let named = json!({"salt": salt, "name": k, "value": v});
                    let named2 = json!({"salt": salt, "key": k, "value": v});
                    let named3 = json!({"value": v, "name": k, "salt": salt, "extra": 1});
                    self.r.pick(&[json!({"salt": "s"}), json!("str"), json!(5), json!(null), twice.clone(), twice, twice_ws, indexed.clone(), indexed, named.clone(), named, named2, named3]).clone()
                } else if self.dev("name-nonstring") {
                    let nm = self.r.pick(&[json!(5), json!(null), json!(["a"]), json!({"a": 1}), json!(true)]).clone();
                    json!([salt, nm, v])
                } else if self.dev("name-reserved") {
                    let rn = *self.r.pick(&["_sd", "..."]);
                    json!([salt, rn, v])
                } else if !m.is_empty() && self.dev("name-collides-visible") {
                    let ks: Vec<String> = m.keys().cloned().collect();
                    let ek = self.r.pick(&ks).clone();
                    json!([salt, ek, v])
                } else if !m.is_empty() && self.dev("name-collides-equal-value") {
                    // the colliding disclosure carries exactly the value that is already there
                    let ks: Vec<String> = m.keys().cloned().collect();
                    let ek = self.r.pick(&ks).clone();
                    let ev = m.get(&ek).cloned().unwrap_or(Value::Null);
                    json!([salt, ek, ev])
                } else if !disclosed_names.is_empty() && self.dev("name-collides-disclosed") {
                    let ek = disclosed_names[0].clone();
                    json!([salt, ek, v])
                } else if self.dev("name-_sd_alg") {
                    json!([salt, "_sd_alg", v])
                } else {
                    if present {
                        disclosed_names.push(k.clone());
                    }
                    json!([salt, k, v])
                };
                let d = self.encode_disclosure(&arr, present);
                let h = digest_of(&d);
                self.pool.push(h.clone());
                if present {
                    self.discs.push(d);
                }
                if present && arr.is_array() && self.dev("respelled-twin") {
                    // the same disclosure in another spelling (one blank in front): another string, another
                    // digest, the same name — referenced from the same list: a name collision
                    let twin = b64e(format!(" {arr}").as_bytes());
                    sd.push(json!(digest_of(&twin)));
                    self.pool.push(digest_of(&twin));
                    self.discs.push(twin);
                }
                if present && self.dev("digest-decorated-in-sd") {
                    // not the digest of any disclosure: padding, blanks, case, a second copy decorated
                    let deco = match self.r.below(5) { 0 => format!("{h}="), 1 => format!("{h}=="), 2 => format!(" {h}"), 3 => format!("{h} "), _ => h.to_uppercase() };
                    if self.r.chance(50) {
                        sd.push(json!(h));
                    }
                    sd.push(json!(deco));
                } else {
                    sd.push(json!(h));
                }
            } else {
                m.insert(k, v);
            }
        }
        if self.r.chance(30) {
            // an unmatched digest is any string no presented disclosure hashes to: mostly 32-byte
            // values, sometimes other sizes (SHA-384 / SHA-512 sized, one byte more or less, empty)
            // or text that is not base64url at all
            let bytes: Vec<u8> = (0..12).flat_map(|_| self.r.next().to_le_bytes()).collect();
            let decoy = match self.r.below(12) {
                0 => b64e(&bytes[..48]),
                1 => b64e(&bytes[..64]),
                2 => b64e(&bytes[..33]),
                3 => b64e(&bytes[..31]),
                4 => b64e(&bytes[..34]),
                5 => b64e(&bytes[..96]),
                6 => format!("{}", self.r.pick(&["", "A", "not base64url!", "AAAA====", "ab~cd", "a.b.c"])),
                7 => b64e(&bytes[..16]),
                _ => b64e(&bytes[..32]),
            };
            if self.dev("dup-unmatched") {
                sd.push(json!(decoy.clone()));
            }
            self.pool.push(decoy.clone());
            sd.push(json!(decoy));
        }
        if !self.pool.is_empty() && self.dev("dup-digest-in-sd") {
            let i = self.r.usize(self.pool.len());
            sd.push(json!(self.pool[i].clone()));
        }
        if self.dev("sd-nonstring-entry") {
            let i = self.r.usize(sd.len() + 1);
            let e = self.r.pick(&[json!(7), json!(null), json!(["x"]), json!({"...": "x"})]).clone();
            sd.insert(i, e);
        }
        if !sd.is_empty() && self.dev("sd-malformed-container") {
            // the digests are there, but not in an array of strings directly under `_sd`
            let h = sd[self.r.usize(sd.len())].clone();
            let e = match self.r.below(5) {
                0 | 1 => h,
                2 => json!({"0": h}),
                3 => json!({"_sd": [h]}),
                _ => json!({"...": h}),
            };
            m.insert("_sd".into(), e);
        } else if !sd.is_empty() || self.r.chance(5) {
            self.r.shuffle(&mut sd);
            // member order is preserved by the library's JSON maps: put `_sd` at a random position
            let at = self.r.usize(m.len() + 1);
            let mut re = Map::new();
            for (i, (k, v)) in std::mem::take(&mut m).into_iter().enumerate() {
                if i == at {
                    re.insert("_sd".into(), Value::Array(std::mem::take(&mut sd)));
                }
                re.insert(k, v);
            }
            if !re.contains_key("_sd") {
                re.insert("_sd".into(), Value::Array(sd));
            }
            m = re;
        } else if self.dev("sd-nonarray") {
            let e = self.r.pick(&[json!("str"), json!(5), json!({"a": "b"}), json!(null)]).clone();
            m.insert("_sd".into(), e);
        }
        if self.dev("nested-_sd_alg") {
            let e = self.r.pick(&[json!("zz"), json!("sha-256"), json!(1)]).clone();
            m.insert("_sd_alg".into(), e);
        }
        if self.dev("dots-key-in-object") {
            m.insert("...".into(), json!("x"));
        }
        if self.dev("placeholder-outside-array") {
            // {"...": digest} with a PRESENTED 2-element disclosure, but as an object member's value
            // (not an array element): nothing is to be disclosed there
            let salt = self.salt();
            let v = self.leaf();
            let d = b64e(json!([salt, v]).to_string().as_bytes());
            let h = digest_of(&d);
            self.discs.push(d);
            let k = self.name();
            m.insert(k, json!({"...": h}));
        }
        Value::Object(m)
    }
    fn arr(&mut self, depth: u32) -> Value {
        let n = self.r.below(4);
        let mut out = vec![];
        for _ in 0..n {
            let v = self.val(depth);
            if self.r.chance(50) {
                let present = self.r.chance(75);
                let salt = self.salt();
                let arr = if self.dev("elem-arity") {
                    let l = *self.r.pick(&[0usize, 1, 3, 4]);
                    let mut a = vec![salt, v];
                    a.resize(l, json!("x"));
                    Value::Array(a)
                } else if self.dev("elem-nonarray") {
                    let twice = json!(json!([salt, v]).to_string());
                    let indexed = json!({"0": salt, "1": v});
                    let named = json!({"salt": salt, "value": v});
                    self.r.pick(&[json!("str"), json!({"a": 1}), json!(null), json!(3), twice.clone(), twice, indexed.clone(), indexed, named.clone(), named]).clone()
                } else {
                    json!([salt, v])
                };
                let d = self.encode_disclosure(&arr, present);
                let h = digest_of(&d);
                self.pool.push(h.clone());
                if present {
                    self.discs.push(d);
                }
                if self.dev("placeholder-extra") {
                    if self.r.chance(50) {
                        out.push(json!({"...": h, "x": 1}));
                    } else {
                        out.push(json!({"note": "x", "...": h}));
                    }
                } else if self.dev("placeholder-nonstring") {
                    out.push(self.r.pick(&[json!({"...": 5}), json!({"...": null}), json!({"...": ["x"]})]).clone());
                } else if present && self.dev("digest-decorated-in-array") {
                    let deco = match self.r.below(4) { 0 => format!("{h}="), 1 => format!(" {h}"), 2 => format!("{h}\n"), _ => h.to_lowercase() };
                    if self.r.chance(50) {
                        out.push(json!({ "...": h }));
                    }
                    out.push(json!({ "...": deco }));
                } else {
                    out.push(json!({ "...": h }));
                }
            } else {
                out.push(v);
            }
        }
        if !self.pool.is_empty() && self.dev("dup-digest-in-array") {
            let i = self.r.usize(self.pool.len());
            out.push(json!({"...": self.pool[i].clone()}));
        }
        Value::Array(out)
    }
}

/// Build a (payload without iss/exp, disclosures, applied deviations) triple; used by C07 too.
pub fn build(r: &mut Rng, force: &'static str, extra_pct: u64) -> (Value, Vec<String>, Vec<&'static str>) {
    let mut b = B {
        r,
        discs: vec![],
        id: 0,
        applied: vec![],
        pool: vec![],
        force,
        forced_done: false,
        extra_pct,
        used_registered: vec![],
    };
    let payload = b.obj(3);
    (payload, b.discs.clone(), b.applied.clone())
}

/// Two well-formed member disclosures (different names) whose digests agree in the first six
/// base64url characters; searched once per process (~2^18 SHA-256).
fn prefix_sharing_pair() -> (&'static str, &'static str) {
    static P: std::sync::OnceLock<(String, String)> = std::sync::OnceLock::new();
    let p = P.get_or_init(|| {
        let mut seen: std::collections::HashMap<String, String> = std::collections::HashMap::new();
        let mut i = 0u64;
        loop {
            let name = if i % 2 == 0 { "pfx_a#c08" } else { "pfx_b#c08" };
            let d = b64e(json!([format!("s{i}"), name, i]).to_string().as_bytes());
            let key = format!("{}{}", i % 2, &digest_of(&d)[..6]);
            let other = format!("{}{}", 1 - i % 2, &digest_of(&d)[..6]);
            if let Some(o) = seen.get(&other) {
                return (o.clone(), d);
            }
            seen.insert(key, d);
            i += 1;
            if i > 4_000_000 {
                // (never expected) fall back to two unrelated disclosures
                return (b64e(b"[\"x\",\"pfx_a#c08\",1]"), b64e(b"[\"y\",\"pfx_b#c08\",2]"));
            }
        }
    });
    (p.0.as_str(), p.1.as_str())
}

fn shape(v: &Value) -> u64 {
    crate::gen::shape_fingerprint(v)
}

fn one_case(ctx: &Ctx, case: u64, l: &mut Local) {
    let mut r = Rng::for_case(ctx.seed, STREAM, case);
    let force = DEVIATIONS[(case % DEVIATIONS.len() as u64) as usize];
    let alg = ALL_ALGS[((case / 36) % 3) as usize];
    let fmt = FMTS[((case / 108) % 2) as usize];
    let mut b = B {
        r: &mut r,
        discs: vec![],
        id: 0,
        applied: vec![],
        pool: vec![],
        force,
        forced_done: false,
        extra_pct: if force == "compose" { 20 } else { 0 },
        used_registered: vec![],
    };
    let mut payload = b.obj(3);
    let mut applied = b.applied.clone();
    let mut discs = b.discs.clone();
    drop(b);
    payload["iss"] = json!("https://issuer.example/A");
    payload["exp"] = json!(api::now() + 3600 + r.below(100_000));
    match force {
        "top-_sd_alg-sha-256" => {
            payload["_sd_alg"] = json!("sha-256");
            applied.push("top-_sd_alg-sha-256");
        }
        "top-_sd_alg-other" => {
            payload["_sd_alg"] = json!(*r.pick(&["md5", "SHA-256", "sha-512", "", "sha256", "sha-256 ", "sha3-256", "sha", "sha-", "256", "-256", "a", "-", "sha-25", "ha-256", "sha-2560", "xsha-256"]));
            applied.push("top-_sd_alg-other");
        }
        "top-_sd_alg-nonstring" => {
            payload["_sd_alg"] = r.pick(&[json!(5), json!(null), json!(["sha-256"]), json!({"alg": "sha-256"}), json!(true)]).clone();
            applied.push("top-_sd_alg-nonstring");
        }
        "top-_sd_alg-absent" => {
            payload.as_object_mut().unwrap().remove("_sd_alg");
            applied.push("top-_sd_alg-absent");
        }
        "unreferenced-disclosure" => {
            discs.push(b64e(json!(["s", "iss", "EVIL"]).to_string().as_bytes()));
            discs.push(b64e(json!(["s", "EVIL"]).to_string().as_bytes()));
            applied.push("unreferenced-disclosure");
        }
        "disclosure-not-json" => {
            discs.push(r.pick(&["bm90IGpzb24", "!!!", "W10=", "e30"]).to_string());
            applied.push("disclosure-not-json");
        }
        "dup-digest-far" => {
            // a long run of placeholders / _sd entries (unmatched digests) in which the LAST one repeats
            // an early one: position 33, 65, 129, 257 of the digests processed
            let n = *r.pick(&[33usize, 34, 65, 129, 257, 40]);
            let mut ds: Vec<String> = (0..n - 1).map(|i| digest_of(&format!("far-{case}-{i}"))).collect();
            let again = ds[r.usize(ds.len().min(32))].clone();
            ds.push(again);
            if r.chance(50) {
                payload["far#c08"] = Value::Array(ds.iter().map(|d| json!({"...": d})).collect());
            } else {
                payload["far#c08"] = json!({"_sd": ds});
            }
            applied.push("dup-digest-far");
        }
        _ => {
            if !payload.as_object().unwrap().contains_key("_sd_alg") && r.chance(50) {
                payload["_sd_alg"] = json!("sha-256");
            }
        }
    }
    if force == "none" && (case / 36) % 2 == 0 {
        // well-formed control: two DIFFERENT digests that share their first / last six characters
        // (found once per process by a birthday search over salts); both claims must come out
        let (a, b) = prefix_sharing_pair();
        let mut sdl = payload.get("_sd").and_then(Value::as_array).cloned().unwrap_or_default();
        sdl.push(json!(digest_of(a)));
        sdl.push(json!(digest_of(b)));
        payload["_sd"] = Value::Array(sdl);
        discs.push(a.to_string());
        discs.push(b.to_string());
        l.count("control.digests-sharing-a-six-character-prefix");
    }
    if r.chance(6) {
        // nothing presented at all: every structural rule about the PAYLOAD still applies
        discs.clear();
        l.count("presented-no-disclosure");
    }
    r.shuffle(&mut discs);
    let forced_applied = force == "none" || force == "compose" || applied.contains(&force);
    for d in &applied {
        l.count(&format!("deviation.applied.{d}"));
    }
    if !forced_applied {
        l.count("deviation.forced-but-no-eligible-site");
    }
    // a quarter of the tokens bind a holder key and are presented with an honest KB-JWT (computed by
    // the harness with SHA-256 over exactly this JWT and disclosure sequence) and verified with
    // aud / nonce: disclosure processing must not depend on whether key binding is checked
    let with_kb = r.chance(25);
    let halg = *r.pick(&[crate::keys::Alg::ES256, crate::keys::Alg::EdDSA]);
    if with_kb {
        payload["cnf"] = json!({"jwk": crate::keys::holder_jwk_json_canonical(halg, 0)});
    }
    // the payload text is spelled in one of several equivalent ways (escaped member names, escaped
    // digest strings, white space): what is signed is literal text, what it MEANS is `payload`
    let spelling = if r.chance(35) { 1 + r.below(5) } else { 0 };
    let jwt = if spelling == 0 {
        api::sign_payload(alg, 0, &payload, None)
    } else {
        let text = model::respell(&payload, spelling);
        if serde_json::from_str::<Value>(&text).ok().as_ref() != Some(&payload) {
            l.count("skipped.respelling-not-equivalent");
            return;
        }
        l.count(&format!("payload-spelling.{spelling}"));
        api::sign_text(&json!({"alg": alg.name()}).to_string(), &text, alg.jwt(), &crate::keys::issuer_enc(alg, 0))
    };
    let kb = if with_kb {
        let mut hashed = jwt.clone();
        for d in &discs {
            hashed.push('~');
            hashed.push_str(d);
        }
        hashed.push('~');
        l.count("with-key-binding");
        Some(api::sign_kb(halg, 0, &json!({"nonce": "n-c08", "aud": "a-c08", "iat": api::now(), "sd_hash": digest_of(&hashed)}), Some("kb+jwt")))
    } else {
        None
    };
    let parts = Parts {
        jwt,
        disclosures: discs.clone(),
        kb,
    };
    let pres = match parts.encode(fmt, case / 216) {
        Some(p) => p,
        None => return,
    };
    if fmt == Fmt::Compact && !parts.compact_representable() {
        l.count("skipped.not-compact-representable");
        return;
    }
    let spec = model::spec_verify(&payload, &discs);
    let got = api::verify(&pres, &Resolver::Fixed(alg, 0), if with_kb { Some(("a-c08", "n-c08")) } else { None }, fmt).out;
    l.evals += 1;
    let decoded: Vec<String> = discs.iter().map(|d| model::b64d(d).ok().and_then(|b| String::from_utf8(b).ok()).unwrap_or_else(|| format!("<raw:{d}>"))).collect();
    let input = || json!({"deviations": applied, "alg": alg.name(), "format": fmt.name(), "payload": payload, "disclosures": decoded, "payload_spelling": spelling, "key_binding": with_kb});
    l.sample(case, input);
    if !applied.is_empty() || !discs.is_empty() {
        let mut h = shape(&payload) ^ (fmt as u64) ^ ((alg as u64) << 2);
        for d in &applied {
            h = crate::rng::mix(h ^ crate::gen::hash_str(d));
        }
        l.distinct(h);
    }
    let class = if applied.is_empty() { "well-formed".to_string() } else { applied.join("+") };
    match (&got, &spec) {
        (Outcome::Panic(..), _) => l.violate(Violation {
            subcheck: "panic".into(),
            class,
            observed: got.panic_signature().unwrap(),
            case,
            detail: json!({"input": input(), "spec": format!("{spec:?}")}),
        }),
        (Outcome::Err(_), SpecOut::Reject(_)) => l.count("bucket.both-reject"),
        (Outcome::Err(e), SpecOut::Claims(_)) => {
            l.count("bucket.impl-stricter");
            if applied.is_empty() {
                l.violate(Violation {
                    subcheck: "well-formed-control-rejected".into(),
                    class: "well-formed".into(),
                    observed: format!("Err({e})"),
                    case,
                    detail: json!({"input": input(), "spec": format!("{spec:?}")}),
                });
            } else {
                let key: String = e.chars().take(60).collect();
                l.count(&format!("impl-stricter.{}", key.split(':').next().unwrap_or("")));
            }
        }
        (_, SpecOut::Unspecified(_)) => l.count("bucket.unspecified"),
        (Outcome::Ok(c), SpecOut::Claims(e)) => {
            if c == e {
                l.count("bucket.agree-accept");
                if applied.is_empty() {
                    l.count("control.accepted-with-spec-claims");
                }
            } else {
                let (at, ex, g, _) = model::first_diff(e, c).unwrap_or_default();
                l.violate(Violation {
                    subcheck: "different-claims".into(),
                    class,
                    observed: "verifier returned claims other than the specification's result".into(),
                    case,
                    detail: json!({"input": input(), "at": at, "spec_there": ex, "got_there": g, "spec_claims": e, "got": c}),
                });
            }
        }
        (Outcome::Ok(c), SpecOut::Reject(why)) => l.violate(Violation {
            subcheck: "lenient".into(),
            class,
            observed: format!("accepted although the specification rejects: {why}"),
            case,
            detail: json!({"input": input(), "got": c}),
        }),
    }
}
