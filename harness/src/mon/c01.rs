//! C01 — issue -> present -> verify returns exactly the selected view of the claims.
//! Oracle: the model's view V(U, SD, D), computed from (U, strategy, selection) only.

use crate::api::{self, Outcome, Resolver};
use crate::evidence::{run_cases, Ctx, Local, Report, Violation};
use crate::gen::{self, SelKind};
use crate::keys;
use crate::model::{self, first_diff};
use crate::pipeline::{self, Config};
use crate::rng::Rng;
use serde_json::{json, Value};
use std::collections::BTreeSet;

const STREAM: u64 = 1;

pub fn run(ctx: &Ctx) -> Report {
    let n = ctx.cases(300_000, 6_000_000);
    let local = run_cases(ctx, n, |case, l| one_case(ctx, case, l));
    let mut rep = Report::new(
        "exploration",
        "case i: profile=i%14, strategy kind=(i/14)%6, configuration (format x alg x decoys x holder key)=(i/84)%36, \
         claims/strategy paths/selection drawn from SplitMix64(seed,i). Distinct = structural fingerprint (claims shape, \
         strategy kind, positions of SD and disclosed paths, configuration bits); non-trivial = >=1 SD path and the \
         selection discloses a non-empty proper subset of them or is one of the two extremes (everything / {}).",
        local,
    );
    rep.assumptions = vec![
        "jsonwebtoken/ring signature primitives are trusted".into(),
        "expected view computed by the harness model from (claims, strategy, selection) only".into(),
        "object member order is not compared; numbers compare as serde_json numbers (no cross-kind coercion)".into(),
    ];
    for p in gen::PROFILES {
        rep.floor(&format!("profile.{}", p.name()), 10);
    }
    rep.floor("verified.equal-to-model", 100);
    rep.floor("selection.everything", 10);
    rep.floor("selection.nothing", 10);
    rep.floor("kb.requested", 10);
    rep
}

fn viol(case: u64, sub: &str, class: &str, observed: String, detail: Value) -> Violation {
    Violation {
        subcheck: sub.into(),
        class: class.into(),
        observed,
        case,
        detail,
    }
}

fn one_case(ctx: &Ctx, case: u64, l: &mut Local) {
    let mut r = Rng::for_case(ctx.seed, STREAM, case);
    let cfg = Config::from_index(case);
    let s = pipeline::gen_scenario(ctx, &mut r, cfg.clone());
    let sel_kind = pipeline::pick_sel_kind(&mut r);
    let sel = gen::gen_selection(&mut r, &s.u, sel_kind);
    let jwk = cfg.holder.map(|(a, i)| keys::holder_jwk_json_canonical(a, i));
    let (expected, disclosed) = model::view(&s.u, &sel, &s.strat.sd);
    let expected = model::with_cnf(expected, jwk.as_ref());
    let kb = match cfg.holder {
        Some(h) if r.chance(75) => Some(pipeline::kb_args_for(&mut r, h)),
        _ => None,
    };
    l.evals += 1;
    l.count(&format!("profile.{}", cfg.profile.name()));
    l.count(&format!("strategy.{}", cfg.strat.name()));
    l.count(&format!("config.{}.{}.decoys={}", cfg.fmt.name(), cfg.alg.name(), cfg.decoys));
    l.count(match sel_kind {
        SelKind::Nothing => "selection.nothing",
        SelKind::Everything => "selection.everything",
        _ => "selection.partial",
    });
    l.add("sd_paths.total", s.strat.sd.len() as u64);
    l.add("sd_paths.disclosed", disclosed.len() as u64);
    if kb.is_some() {
        l.count("kb.requested");
    }

    let input = || {
        json!({"config": cfg.describe(), "claims": s.u, "strategy": s.strat.describe(), "selection": sel,
               "kb": kb.as_ref().map(|k| json!({"aud": k.aud.chars().take(40).collect::<String>(), "nonce": k.nonce.chars().take(40).collect::<String>()}))})
    };
    let class = cfg.profile.name();

    // fingerprint / non-triviality
    {
        let all = gen::all_paths(&s.u);
        let pos = |set: &BTreeSet<gen::Path>| -> u64 {
            let mut h = 0u64;
            for (i, p) in all.iter().enumerate() {
                if set.contains(p) {
                    h = crate::rng::mix(h ^ (i as u64 + 1));
                }
            }
            h
        };
        let nontrivial = !s.strat.sd.is_empty()
            && (matches!(sel_kind, SelKind::Nothing | SelKind::Everything)
                || (!disclosed.is_empty() && disclosed.len() < s.strat.sd.len()));
        if nontrivial {
            let fp = crate::rng::mix(gen::shape_fingerprint(&s.u) ^ pos(&s.strat.sd).rotate_left(17) ^ pos(&disclosed).rotate_left(31) ^ cfg.bits());
            l.distinct(fp);
        }
    }
    l.sample(case, input);

    // 1. issue
    let mut issuer = api::new_issuer(cfg.alg, 0, s.explicit_alg);
    let sd_jwt = match api::issue(&mut issuer, &s.u, &s.strat, cfg.holder, cfg.decoys, cfg.fmt) {
        Outcome::Ok(x) => x,
        other => {
            l.violate(viol(
                case,
                "issue",
                class,
                other.panic_signature().unwrap_or_else(|| other.describe()),
                json!({"input": input(), "history": api::history()}),
            ));
            return;
        }
    };
    // 2. hold + present
    let mut holder = match api::holder_new(&sd_jwt, cfg.fmt) {
        Outcome::Ok(h) => h,
        other => {
            let other = other.map(|_| ());
            l.violate(viol(
                case,
                "holder-new",
                class,
                other.panic_signature().unwrap_or_else(|| other.describe()),
                json!({"input": input(), "history": api::history()}),
            ));
            return;
        }
    };
    let pres = match api::present(&mut holder, &sel, kb.as_ref()) {
        Outcome::Ok(p) => p,
        other => {
            l.violate(viol(
                case,
                "present",
                class,
                other.panic_signature().unwrap_or_else(|| other.describe()),
                json!({"input": input(), "history": api::history()}),
            ));
            return;
        }
    };
    // 3. verify
    let kbpair = kb.as_ref().map(|k| (k.aud.as_str(), k.nonce.as_str()));
    let ver = api::verify(&pres, &Resolver::Fixed(cfg.alg, 0), kbpair, cfg.fmt);
    let got = match ver.out {
        Outcome::Ok(v) => v,
        other => {
            l.violate(viol(
                case,
                "verify",
                class,
                other.panic_signature().unwrap_or_else(|| other.describe()),
                json!({"input": input(), "history": api::history()}),
            ));
            return;
        }
    };
    // 4. compare with the model
    if let Some((at, e, g, f64s)) = first_diff(&expected, &got) {
        l.violate(viol(
            case,
            if f64s { "number-roundtrip" } else { "claims-differ-from-model" },
            class,
            if f64s {
                "f64 value changed through issue/present/verify".into()
            } else {
                "verified claims differ from V(U,SD,D)".to_string()
            },
            json!({"input": input(), "at": at, "expected": e, "got": g, "expected_claims": expected, "got_claims": got, "history": api::history()}),
        ));
        return;
    }
    l.count("verified.equal-to-model");
    // 5. extra clauses, model-independent
    match sel_kind {
        SelKind::Everything => {
            let want = model::with_cnf(s.u.clone(), jwk.as_ref());
            if want != got {
                l.violate(viol(
                    case,
                    "select-all-returns-original",
                    class,
                    "selecting everything did not return the original claims".into(),
                    json!({"input": input(), "got": got}),
                ));
            } else {
                l.count("clause.select-all==original");
            }
        }
        SelKind::Nothing => {
            let want = model::with_cnf(model::view_by_set(&s.u, &s.strat.sd, &BTreeSet::new()), jwk.as_ref());
            if want != got {
                l.violate(viol(
                    case,
                    "select-nothing-returns-visible-part",
                    class,
                    "selecting nothing did not return exactly the always-visible part".into(),
                    json!({"input": input(), "got": got}),
                ));
            } else {
                l.count("clause.select-nothing==visible-part");
            }
        }
        _ => {}
    }
    if let Some(at) = model::reserved_residue(&got) {
        l.violate(viol(
            case,
            "reserved-residue",
            class,
            "digest list / placeholder / _sd_alg survives in verified claims".into(),
            json!({"input": input(), "at": at, "got": got}),
        ));
    }
    // 6. the bound holder key given as a JWK that carries optional members (use, key_ops, alg, x5t,
    // x5c, x5u, kid): the confirmation claim is that key as given, and key binding still works
    if let (Some((halg, hidx)), true) = (cfg.holder, case % 8 == 3) {
        let mut deco = keys::holder_jwk_json(halg, hidx);
        for _ in 0..1 + r.below(4) {
            match r.below(7) {
                0 => deco["use"] = json!("sig"),
                1 => deco["key_ops"] = json!(["verify"]),
                2 => deco["alg"] = json!(halg.name()),
                3 => deco["x5t"] = json!("dGhpcyBpcyBhIFNIQTEgdGVzdCE"),
                4 => deco["x5c"] = json!(["MIIB"]),
                5 => deco["x5u"] = json!("https://holder.example/cert.pem"),
                _ => deco["kid"] = json!(format!("kid-{}", r.below(1000))),
            }
        }
        let parsed: Option<jsonwebtoken::jwk::Jwk> = serde_json::from_value(deco.clone()).ok();
        if let Some(pj) = parsed {
            let canonical = serde_json::to_value(&pj).unwrap_or(Value::Null);
            let mut issuer = api::new_issuer(cfg.alg, 0, s.explicit_alg);
            let kbx = pipeline::kb_args_for(&mut r, (halg, hidx));
            let res = match api::issue_with_jwk(&mut issuer, &s.u, &s.strat, Some(&deco), cfg.decoys, cfg.fmt) {
                Outcome::Ok(sd) => match api::holder_new(&sd, cfg.fmt) {
                    Outcome::Ok(mut h) => match api::present(&mut h, &sel, Some(&kbx)) {
                        Outcome::Ok(p) => api::verify(&p, &Resolver::Fixed(cfg.alg, 0), Some((kbx.aud.as_str(), kbx.nonce.as_str())), cfg.fmt).out,
                        o => o.map(|_| Value::Null),
                    },
                    o => o.map(|_| Value::Null),
                },
                o => o.map(|_| Value::Null),
            };
            l.evals += 1;
            let (view, _) = model::view(&s.u, &sel, &s.strat.sd);
            let want = model::with_cnf(view, Some(&canonical));
            match res {
                Outcome::Ok(v) if v == want => l.count("decorated-holder-jwk.equal-to-model"),
                Outcome::Ok(v) => {
                    let (at, e, g, _) = first_diff(&want, &v).unwrap_or_default();
                    l.violate(viol(case, "claims-differ-from-model", "holder JWK with optional members", "verified claims differ from V(U,SD,D) + cnf".into(), json!({"input": input(), "holder_jwk": deco, "at": at, "expected": e, "got": g})));
                }
                other => l.violate(viol(case, "verify", "holder JWK with optional members", other.panic_signature().unwrap_or_else(|| other.describe()), json!({"input": input(), "holder_jwk": deco, "history": api::history()}))),
            }
        }
    }
    // 7. issuers that sign with another algorithm family (HS384 / HS512, P-384, RSA of 2048 / 3072 / 4096
    // bits, PKCS#1 v1.5 and PSS): what is hidden, how it is hashed (`_sd_alg` names the hash that was used)
    // and what comes back do not depend on how the credential is signed
    if case % 16 == 11 {
        let names: Vec<&str> = keys::EXTRA_ALGS.iter().copied().chain(keys::BIG_RSA.iter().copied()).collect();
        let an = names[((case / 16) % names.len() as u64) as usize];
        let alg_name = an.split('/').next().unwrap_or(an).to_string();
        let mut issuer = sd_jwt_rs::SDJWTIssuer::new(keys::extra_enc(an), Some(alg_name));
        l.evals += 1;
        match pipeline::issue_with(&mut issuer, &s.u, &s.strat, cfg.holder, cfg.decoys, cfg.fmt) {
            Ok(issued) => {
                for c in &issued.loc.complaints {
                    l.violate(viol(case, c.kind, &format!("issuer signing with {an}"), format!("structural complaint: {}", c.kind), json!({"input": input(), "at": c.at, "complaint": c.detail, "payload": issued.payload})));
                }
                let declared = issued.payload.get("_sd_alg").cloned();
                if declared.as_ref().map(|d| d != "sha-256").unwrap_or(false) {
                    // (every digest was just matched as SHA-256 by the locator)
                    l.violate(viol(case, "sd-alg-misdeclared", &format!("issuer signing with {an}"), format!("_sd_alg = {} while the digests are SHA-256", declared.clone().unwrap_or_default()), json!({"input": input(), "payload": issued.payload})));
                }
                let res = match api::holder_new(&issued.sd_jwt, cfg.fmt) {
                    Outcome::Ok(mut h) => match api::present(&mut h, &sel, kb.as_ref()) {
                        Outcome::Ok(p) => api::verify(&p, &Resolver::Extra(an), kbpair, cfg.fmt).out,
                        o => o.map(|_| Value::Null),
                    },
                    o => o.map(|_| Value::Null),
                };
                match res {
                    Outcome::Ok(v) if v == expected => l.count("other-signing-algorithms.equal-to-model"),
                    Outcome::Ok(v) => {
                        let (at, e, g, _) = first_diff(&expected, &v).unwrap_or_default();
                        l.violate(viol(case, "claims-differ-from-model", &format!("issuer signing with {an}"), "verified claims differ from V(U,SD,D)".into(), json!({"input": input(), "at": at, "expected": e, "got": g})));
                    }
                    other => l.violate(viol(case, "verify", &format!("issuer signing with {an}"), other.panic_signature().unwrap_or_else(|| other.describe()), json!({"input": input(), "history": api::history()}))),
                }
            }
            Err(f) => l.violate(viol(case, "issue", &format!("issuer signing with {an}"), format!("{f:?}").chars().take(200).collect(), json!({"input": input()}))),
        }
    }
}
