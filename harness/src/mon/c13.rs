//! C13 — the issuer refuses claim sets that use the reserved names `_sd` or `...`.
//! Must-reject for every planted position, must-accept for the control and for near-misses.

use crate::api::{self, Outcome, Resolver};
use crate::evidence::{run_cases, Ctx, Local, Report, Violation};
use crate::gen::{self, GenCfg, StratKind, PROFILES};
use crate::keys::{Alg, ALL_ALGS};
use crate::model::{Fmt, FMTS};
use crate::rng::Rng;
use serde_json::{json, Map, Value};

const STREAM: u64 = 13;

pub fn run(ctx: &Ctx) -> Report {
    let n = ctx.cases(2_000, 200_000);
    let local = run_cases(ctx, n, |case, l| one_case(ctx, case, l));
    let mut rep = Report::new(
        "exploration",
        "case i: one generated tree (profile=i%14); a member named _sd / ... is planted at EVERY object position (and as a new \
         single-member object appended to EVERY array) in turn, value kind rotating over 19 kinds (plain values and genuine-looking digest lists / placeholders), under 5 strategies (incl. Custom with an empty list) x 2 formats; \
         control = the unplanted tree and 9 near-miss plants must be issued. evaluations = issue_sd_jwt calls. Distinct = (claims \
         shape, plant position index, name, strategy, format); every planted case is non-trivial.",
        local,
    );
    rep.assumptions = vec!["near-misses (values \"_sd\"/\"...\", names _sdx, '_sd ', '....', '..', '_SD', '_sd_', '. . .') are not reserved".into()];
    rep.floor("plant._sd.refused", 100);
    rep.floor("plant.....refused", 100);
    rep.floor("control.issued", 100);
    rep.floor("near-miss.issued", 100);
    rep.floor("position.in-array", 20);
    rep.floor("position.nested", 20);
    rep.floor("position.top", 20);
    rep
}

fn count_sites(v: &Value) -> usize {
    match v {
        Value::Object(m) => 1 + m.values().map(count_sites).sum::<usize>(),
        Value::Array(a) => 1 + a.iter().map(count_sites).sum::<usize>(),
        _ => 0,
    }
}

/// Plant `name: val` at site number `target` (pre-order over objects and arrays). For an object
/// the member is inserted (at a position chosen by `first`); for an array a new object
/// `{name: val}` is appended / prepended. Returns (planted tree, description of the position).
fn plant(v: &Value, target: usize, counter: &mut usize, depth: usize, in_array: bool, name: &str, val: &Value, first: bool, pos: &mut String) -> Value {
    match v {
        Value::Object(m) => {
            let me = *counter;
            *counter += 1;
            let mut o = Map::new();
            if me == target && first {
                o.insert(name.to_string(), val.clone());
            }
            for (k, c) in m {
                o.insert(k.clone(), plant(c, target, counter, depth + 1, false, name, val, first, pos));
            }
            if me == target && !first {
                o.insert(name.to_string(), val.clone());
            }
            if me == target {
                *pos = if depth == 0 {
                    "top".into()
                } else if in_array {
                    "in-array".into()
                } else {
                    "nested".into()
                };
            }
            Value::Object(o)
        }
        Value::Array(a) => {
            let me = *counter;
            *counter += 1;
            let mut out: Vec<Value> = vec![];
            if me == target && first {
                out.push(json!({ name: val }));
            }
            for c in a {
                out.push(plant(c, target, counter, depth + 1, true, name, val, first, pos));
            }
            if me == target && !first {
                out.push(json!({ name: val }));
            }
            if me == target {
                *pos = "in-array".into();
            }
            Value::Array(out)
        }
        x => x.clone(),
    }
}

fn one_case(ctx: &Ctx, case: u64, l: &mut Local) {
    let mut r = Rng::for_case(ctx.seed, STREAM, case);
    let profile = PROFILES[(case % PROFILES.len() as u64) as usize];
    let mut g = GenCfg::new(profile, *r.pick(&[6, 15, 30]), api::now());
    g.safe_names = true;
    let mut u = gen::gen_claims(&mut r, &g);
    if r.chance(35) {
        // `iat` is an ordinary always-visible claim for the issuer: give it a structured value so
        // that planting positions exist inside an always-revealed claim as well
        let inner = gen::gen_claims(&mut r, &GenCfg::new(profile, 5, api::now()));
        u["iat"] = if r.chance(50) { inner } else { json!([inner, 1]) };
    }
    let sites = count_sites(&u);
    let strategies = [
        gen::gen_strategy(&mut r, &u, StratKind::NoSD),
        gen::gen_strategy(&mut r, &u, StratKind::TopLevel),
        gen::gen_strategy(&mut r, &u, StratKind::AllLevels),
        gen::gen_strategy(&mut r, &u, StratKind::Custom40),
        // Custom with an EMPTY selector list (hides nothing; the refusal still applies)
        gen::custom_strategy_for(&mut r, &[]),
    ];
    // "with any value": plain values, and values that look exactly like what the issuer itself
    // would write there (lists of genuine-looking SHA-256 digests, a digest string, a placeholder)
    let dg = |t: &str| crate::model::digest_of(t);
    let values = [
        json!("x"), json!(["d1", "d2"]), json!(null), json!({"a": 1}), json!(7), json!([]),
        json!([dg("a"), dg("b"), dg("c")]), json!([dg("only")]), json!(dg("bare")), json!({"...": dg("p")}), json!([{"...": dg("q")}]), json!(true),
        json!((0..40).map(|i| dg(&i.to_string())).collect::<Vec<_>>()), json!(""), json!([[dg("n")]]),
        // long values with multi-byte characters at every byte offset around 48 of their JSON text
        json!("\u{44f}".repeat(40)), json!(format!("{}\u{e9}{}", "a".repeat(46), "b".repeat(12))), json!([format!("{}\u{20ac}\u{1f600}{}", "a".repeat(43), "c".repeat(9))]), json!({"k": format!("{}\u{4e2d}\u{4e2d}\u{4e2d}", "a".repeat(40))}),
    ];
    let nv = values.len();
    let alg: Alg = ALL_ALGS[(case % 3) as usize];
    let mut issuer = api::new_issuer(alg, 0, true);
    let shape = gen::shape_fingerprint(&u);
    l.sample(case, || json!({"claims": u, "sites": sites}));

    // control
    for (si, st) in strategies.iter().enumerate() {
        for fmt in FMTS {
            l.evals += 1;
            match api::issue(&mut issuer, &u, st, None, si % 2 == 0, fmt) {
                Outcome::Ok(_) => l.count("control.issued"),
                other => l.violate(Violation {
                    subcheck: "control-refused".into(),
                    class: profile.name().into(),
                    observed: other.panic_signature().unwrap_or_else(|| other.describe()),
                    case,
                    detail: json!({"claims": u, "strategy": st.describe(), "format": fmt.name(), "history": api::history()}),
                }),
            }
        }
    }
    // a reserved member inside a user-supplied top-level `cnf`, with and without a holder key being
    // bound in the same call ("any object anywhere in the user claims")
    {
        use crate::keys::Alg as A;
        for name in ["_sd", "..."] {
            for (k, cnf) in [json!({"jwk": {"kty": "oct", "k": "AAAA", name: ["x"]}}), json!({name: "x"}), json!({"jwk": {"kty": "EC"}, "more": [{"deep": {name: 1}}]})].into_iter().enumerate() {
                let mut planted = u.clone();
                planted["cnf"] = cnf;
                for holder in [None, Some((A::ES256, 0usize)), Some((A::EdDSA, 1))] {
                    let st = &strategies[(k + holder.is_some() as usize) % strategies.len()];
                    let fmt = FMTS[k % 2];
                    l.evals += 1;
                    l.count("position.inside-user-cnf");
                    match api::issue(&mut issuer, &planted, st, holder, k % 2 == 0, fmt) {
                        Outcome::Err(_) => l.count(&format!("plant.{name}.refused")),
                        other => l.violate(Violation {
                            subcheck: "reserved-name-issued".into(),
                            class: format!("{name} @ inside user cnf (holder key bound: {})", holder.is_some()),
                            observed: other.panic_signature().unwrap_or_else(|| "Ok (SD-JWT produced)".into()),
                            case,
                            detail: json!({"claims": planted, "strategy": st.describe(), "format": fmt.name(), "holder_key": holder.map(|h| h.0.name())}),
                        }),
                    }
                }
            }
        }
    }
    // a reserved member in / below a nested object that also carries a string `_sd_alg` member (it looks
    // like the payload of an already issued SD-JWT; it is user data all the same)
    for name in ["_sd", "..."] {
        for (k, emb) in [json!({"_sd_alg": "sha-256", name: ["x"]}), json!({"_sd_alg": "sha-256", "vc": {"deep": [{name: 1}]}}), json!([{"_sd_alg": "sha-256", "a": {name: "y"}}])].into_iter().enumerate() {
            let mut planted = u.clone();
            planted["embedded#c13e;"] = emb;
            let st = &strategies[k % strategies.len()];
            l.evals += 1;
            l.count("position.next-to-a-string-_sd_alg");
            match api::issue(&mut issuer, &planted, st, None, k % 2 == 0, FMTS[k % 2]) {
                Outcome::Err(_) => l.count(&format!("plant.{name}.refused")),
                other => l.violate(Violation {
                    subcheck: "reserved-name-issued".into(),
                    class: format!("{name} @ object with a string _sd_alg member"),
                    observed: other.panic_signature().unwrap_or_else(|| "Ok (SD-JWT produced)".into()),
                    case,
                    detail: json!({"claims": planted, "strategy": st.describe()}),
                }),
            }
        }
    }
    // MANY reserved members at once (256, 512, 65 536: counters of 8 / 16 bits wrap to zero there)
    if case % 500 == 3 {
        for n in [255usize, 256, 257, 512, 65_536] {
            for name in ["_sd", "..."] {
                let rows: Vec<Value> = (0..n).map(|i| { let mut m = serde_json::Map::new(); m.insert("i".into(), json!(i)); m.insert(name.into(), json!(["x"])); Value::Object(m) }).collect();
                let mut planted = u.clone();
                planted["rows#c13;"] = Value::Array(rows);
                let st = &strategies[n % strategies.len()];
                l.evals += 1;
                l.count("position.many-at-once");
                match api::issue(&mut issuer, &planted, st, None, false, FMTS[n % 2]) {
                    Outcome::Err(_) => l.count(&format!("plant.{name}.refused")),
                    other => l.violate(Violation {
                        subcheck: "reserved-name-issued".into(),
                        class: format!("{name} @ {n} rows at once"),
                        observed: other.panic_signature().unwrap_or_else(|| "Ok (SD-JWT produced)".into()),
                        case,
                        detail: json!({"rows": n, "strategy": st.describe()}),
                    }),
                }
            }
        }
    }
    // plants
    let mut vk = r.usize(nv);
    for t in 0..sites {
        for name in ["_sd", "..."] {
            vk = (vk + 1) % nv;
            let mut pos = String::new();
            let planted = plant(&u, t, &mut 0, 0, false, name, &values[vk], r.chance(50), &mut pos);
            l.count(&format!("position.{pos}"));
            for (si, st) in strategies.iter().enumerate() {
                for fmt in FMTS {
                    l.evals += 1;
                    l.distinct(crate::rng::mix(shape ^ ((t as u64) << 8) ^ ((name.len() as u64) << 4) ^ ((si as u64) << 1) ^ fmt as u64));
                    match api::issue(&mut issuer, &planted, st, None, si % 2 == 1, fmt) {
                        Outcome::Err(_) => l.count(&format!("plant.{name}.refused")),
                        other => l.violate(Violation {
                            subcheck: "reserved-name-issued".into(),
                            class: format!("{name} @ {pos}"),
                            observed: other.panic_signature().unwrap_or_else(|| "Ok (SD-JWT produced)".into()),
                            case,
                            detail: json!({"claims": planted, "site": t, "strategy": st.describe(), "format": fmt.name(), "history": api::history()}),
                        }),
                    }
                }
            }
        }
    }
    // both reserved names in the SAME object (every site, one strategy / format each)
    for t in 0..sites {
        let mut pos = String::new();
        let one = plant(&u, t, &mut 0, 0, false, "_sd", &values[vk % nv], r.chance(50), &mut pos);
        let both = plant(&one, t, &mut 0, 0, false, "...", &values[(vk + 1) % nv], r.chance(50), &mut pos);
        let st = &strategies[t % 4];
        let fmt = FMTS[t % 2];
        l.evals += 1;
        match api::issue(&mut issuer, &both, st, None, t % 3 == 0, fmt) {
            Outcome::Err(_) => l.count("plant.both.refused"),
            other => l.violate(Violation {
                subcheck: "reserved-name-issued".into(),
                class: format!("_sd and ... in one object @ {pos}"),
                observed: other.panic_signature().unwrap_or_else(|| "Ok (SD-JWT produced)".into()),
                case,
                detail: json!({"claims": both, "site": t, "strategy": st.describe(), "format": fmt.name()}),
            }),
        }
    }
    // near-misses at a few random sites: must be issued
    let mut near_names: Vec<String> = ["_sdx", "_sd ", "....", "..", "_SD", "_sd_", ". . .", " _sd", "…"].iter().map(|s| s.to_string()).collect();
    // ... and, systematically, a reserved name with ONE extra character in front, behind or inside: blanks of
    // all kinds, invisible format characters, combining marks, a NUL, a look-alike letter
    {
        const EXTRA: [char; 26] = [' ', '\t', '\n', '\r', '\u{0}', '\u{a0}', '\u{ad}', '\u{200b}', '\u{200c}', '\u{200d}', '\u{2060}', '\u{feff}', '\u{2028}', '\u{3000}', '\u{301}', '\u{fe0f}', '\u{202e}', '\u{180e}', '\u{7f}', '\u{85}', '\u{1680}', '\u{2009}', '\u{e0001}', '\u{ff3f}', '\u{455}', '\u{2024}'];
        for _ in 0..6 {
            let base = *r.pick(&["_sd", "..."]);
            let c = *r.pick(&EXTRA);
            let at = match r.below(3) {
                0 => 0,
                1 => base.len(),
                _ => 1 + r.usize(base.len() - 1),
            };
            near_names.push(format!("{}{}{}", &base[..at], c, &base[at..]));
        }
    }
    for nm in near_names.iter().map(|s| s.as_str()) {
        let t = r.usize(sites);
        let mut pos = String::new();
        let planted = plant(&u, t, &mut 0, 0, false, nm, &json!("x"), false, &mut pos);
        // and reserved words as *values* / array elements
        let planted = match planted {
            Value::Object(mut m) => {
                m.insert("nm-values#0;".into(), json!(["...", "_sd", {"k#00;": "_sd"}, {"k#01;": "..."}]));
                Value::Object(m)
            }
            x => x,
        };
        let st = &strategies[r.usize(3)]; // not Custom: near-miss names may contain '.'
        let fmt = *r.pick(&[Fmt::Compact, Fmt::Json]);
        l.evals += 1;
        match api::issue(&mut issuer, &planted, st, None, false, fmt) {
            Outcome::Ok(sd) => {
                l.count("near-miss.issued");
                // ... and issued AS GIVEN: everything selected, the verified claims are the claims that went in
                // (a name "repaired" on the way out would turn the near miss into the reserved name)
                let back = match api::holder_new(&sd, fmt) {
                    Outcome::Ok(mut h) => match api::present(&mut h, &gen::select_all(&planted), None) {
                        Outcome::Ok(p) => api::verify(&p, &Resolver::Fixed(alg, 0), None, fmt).out,
                        o => o.map(|_| Value::Null),
                    },
                    o => o.map(|_| Value::Null),
                };
                l.evals += 1;
                match back {
                    Outcome::Ok(v) if v == planted => l.count("near-miss.round-trip"),
                    other => l.violate(Violation {
                        subcheck: "near-miss-not-issued-as-given".into(),
                        class: format!("name {nm:?}"),
                        observed: if other.is_ok() { "verified claims differ from the claims given".into() } else { other.panic_signature().unwrap_or_else(|| other.describe()) },
                        case,
                        detail: json!({"claims": planted, "strategy": st.describe(), "format": fmt.name(), "got": other.as_ok()}),
                    }),
                }
            }
            other => l.violate(Violation {
                subcheck: "near-miss-refused".into(),
                class: format!("name {nm:?}"),
                observed: other.panic_signature().unwrap_or_else(|| other.describe()),
                case,
                detail: json!({"claims": planted, "strategy": st.describe(), "format": fmt.name(), "history": api::history()}),
            }),
        }
    }
}
