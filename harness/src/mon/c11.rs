//! C11 — issuer and holder instances are reusable; results do not depend on history.
//! History monitor: 1..8 calls on one instance with independently drawn arguments (including
//! failing calls); every successful k-th result must satisfy the single-call oracle for its own
//! arguments and contain nothing from any other call.

use crate::api::{self, KbArgs, Outcome, Resolver};
use crate::evidence::{run_cases, Ctx, Local, Report, Violation};
use crate::gen::{self, GenCfg, StratKind, PROFILES, STRAT_KINDS};
use crate::keys::{self, Alg, ALL_ALGS};
use crate::model::{self, Fmt, Parts};
use crate::mon::c05::check_issued;
use crate::mon::c06::{check_kb_shape, check_presentation};
use crate::pipeline::{self, Config, IssueFail, Scenario};
use crate::rng::Rng;
use serde_json::{json, Value};
use std::collections::HashSet;

const STREAM: u64 = 11;

pub fn run(ctx: &Ctx) -> Report {
    let n = ctx.cases(20_000, 1_000_000);
    let local = run_cases(ctx, n, |case, l| {
        issuer_history(ctx, case, l);
        holder_history(ctx, case, l);
    });
    let mut rep = Report::new(
        "exploration",
        "case i: one issuer history and one holder history, each of 1..8 calls on ONE instance; arguments of every call drawn \
         independently (claims tagged #<call>:<n>; strategy; holder key none/ES256/EdDSA x 2 keys; decoys; format; selection; \
         key-binding arguments), failing calls interleaved in about half of the histories. evaluations = calls made on reused \
         instances. Distinct = (per-call configuration sequence, success pattern); non-trivial = history of length >= 2 in which \
         consecutive calls differ in at least one of format, decoy flag, holder key, success.",
        local,
    );
    rep.assumptions = vec![
        "a result is compared with what a fresh instance produces through decode + verify (salts, decoys, iat and ECDSA signatures are fresh by nature)".into(),
        "holder results without key binding are deterministic and compared byte-for-byte with a fresh holder's output".into(),
    ];
    rep.floor("issuer.calls.ok", 1000);
    rep.floor("issuer.calls.failing", 200);
    rep.floor("issuer.ok-after-failing", 100);
    rep.floor("holder.calls.ok", 1000);
    rep.floor("holder.calls.failing", 200);
    rep.floor("holder.ok-after-failing", 100);
    rep.floor("holder.JSON.second-or-later-ok", 100);
    rep.floor("holder.Compact.second-or-later-ok", 100);
    rep
}

fn viol(case: u64, sub: &str, class: &str, observed: String, detail: Value) -> Violation {
    Violation {
        subcheck: sub.into(),
        class: class.into(),
        observed,
        case,
        detail,
    }
}

fn texts_of(parts: &Parts) -> Vec<String> {
    let mut t = vec![parts.payload_text().unwrap_or_default()];
    for d in &parts.disclosures {
        t.push(model::b64d(d).ok().and_then(|b| String::from_utf8(b).ok()).unwrap_or_default());
    }
    t
}

/// tags of calls other than `k` that occur in the texts
fn foreign_tags(texts: &[String], k: usize) -> Option<String> {
    let mine = format!("#{k}:");
    for t in texts {
        for tag in model::tags_in(t) {
            if !tag.starts_with(&mine) {
                return Some(tag);
            }
        }
    }
    None
}

fn issuer_history(ctx: &Ctx, case: u64, l: &mut Local) {
    let mut r = Rng::for_case(ctx.seed, STREAM, case);
    let len = 1 + r.below(8) as usize;
    let with_failures = r.chance(50);
    let alg = ALL_ALGS[(case % 3) as usize];
    let mut issuer = api::new_issuer(alg, 0, true);
    let mut seen_strings: HashSet<String> = HashSet::new(); // disclosures and digests of earlier results
    let mut prev_claims: Option<(Value, gen::Strategy, usize)> = None;
    let mut prev: Option<(Fmt, bool, Option<(Alg, usize)>, bool)> = None;
    let mut nontrivial = false;
    let mut fp = 0u64;
    let mut failed_before = false;
    let mut summary: Vec<Value> = vec![];
    for k in 0..len {
        l.evals += 1;
        // ---- a failing call?
        if with_failures && r.chance(35) {
            let kind = r.below(8);
            let fmt = *r.pick(&[Fmt::Compact, Fmt::Json]);
            let holder = match r.below(3) {
                0 => None,
                1 => Some((Alg::ES256, r.usize(2))),
                _ => Some((Alg::EdDSA, r.usize(2))),
            };
            let poison_tag = format!("#{k}:999;");
            let out = match kind {
                0 => api::issue_raw(&mut issuer, &json!([1, poison_tag]), sd_jwt_rs::ClaimsForSelectiveDisclosureStrategy::AllLevels, holder, true, fmt),
                1 => api::issue_raw(&mut issuer, &json!(poison_tag), sd_jwt_rs::ClaimsForSelectiveDisclosureStrategy::TopLevel, holder, true, fmt),
                2 => api::issue_raw(&mut issuer, &json!({"iss": "i", "exp": 4000000000u64, "a": poison_tag}), sd_jwt_rs::ClaimsForSelectiveDisclosureStrategy::Custom(vec!["nope"]), holder, true, fmt),
                3 => api::issue_raw(&mut issuer, &json!({"iss": "i", "exp": 4000000000u64, "o": {"_sd": [poison_tag]}}), sd_jwt_rs::ClaimsForSelectiveDisclosureStrategy::AllLevels, holder, true, fmt),
                4 => api::issue_raw(&mut issuer, &json!({"iss": "i", "exp": 4000000000u64, "a": [{"...": poison_tag}]}), sd_jwt_rs::ClaimsForSelectiveDisclosureStrategy::AllLevels, holder, true, fmt),
                // a Custom list whose FIRST paths are fine (they name claims that later calls often
                // carry in clear) and whose last one is malformed
                5 => api::issue_raw(&mut issuer, &json!({"iss": "i", "exp": 4000000000u64, "sub": poison_tag, "nbf": 1, "iat": 2}), sd_jwt_rs::ClaimsForSelectiveDisclosureStrategy::Custom(vec!["$.sub", "$.nbf", "$.iat", "$.cnf", "no-dollar-prefix"]), holder, true, fmt),
                6 => api::issue_raw(&mut issuer, &json!({"iss": "i", "exp": 4000000000u64, "sub": poison_tag, "o": {"_sd": 1}}), sd_jwt_rs::ClaimsForSelectiveDisclosureStrategy::Custom(vec!["$.sub", "$.nbf", "$.o"]), holder, true, fmt),
                // the claims of the previous successful call — same member names everywhere — with a
                // reserved member planted inside an object that is an ARRAY ELEMENT, and deep below
                _ => {
                    let mut c = prev_claims.as_ref().map(|p| p.0.clone()).unwrap_or_else(|| json!({"iss": "i", "exp": 4000000000u64, "a": [1]}));
                    fn plant(v: &mut Value, tag: &str, done: &mut bool) {
                        match v {
                            Value::Array(a) if !*done => {
                                a.push(json!({"deep": {"deeper": {"deepest": [{"_sd": [tag]}]}}}));
                                *done = true;
                            }
                            Value::Object(m) => {
                                for (_, x) in m.iter_mut() {
                                    plant(x, tag, done);
                                }
                            }
                            _ => {}
                        }
                    }
                    let mut done = false;
                    plant(&mut c, &poison_tag, &mut done);
                    if !done {
                        c["l8"] = json!({"a": {"b": {"c": {"d": {"e": {"f": {"g": {"...": poison_tag}}}}}}}});
                    }
                    api::issue_raw(&mut issuer, &c, sd_jwt_rs::ClaimsForSelectiveDisclosureStrategy::AllLevels, holder, true, fmt)
                }
            };
            l.count("issuer.calls.failing");
            if out.is_ok() {
                // every one of these inputs is refused by a fresh instance
                l.count("issuer.failing-call-succeeded");
                l.violate(viol(case, "issuer-call-outcome-depends-on-history", &format!("call#{k} (failing kind {kind})"), "a reused issuer accepted input that the library refuses on a fresh instance".into(), json!({"earlier_calls": summary, "history": api::history()})));
            }
            if out.is_panic() {
                l.violate(viol(case, "panic", "failing-issuer-call", out.panic_signature().unwrap(), json!({"history": api::history()})));
            }
            summary.push(json!({"call": k, "kind": format!("failing-{kind}"), "result": out.class()}));
            if let Some(p) = &prev {
                if p.3 {
                    nontrivial = true;
                }
            }
            prev = Some((fmt, true, holder, false));
            failed_before = true;
            fp = crate::rng::mix(fp ^ 0xF00 ^ kind);
            continue;
        }
        // ---- a call whose holder key is a symmetric or RSA JWK (no key material of ours; only the
        // confirmation claim is checked): cnf must be exactly this JWK, nothing of an earlier call
        if r.chance(12) {
            let jwk = r.pick(&[
                json!({"kty": "oct", "k": "c2VjcmV0LWhvbGRlci1rZXk", "kid": "holder-key"}),
                json!({"kty": "RSA", "n": "sXchDaQebHnPiGvyDOAT4saGEUetSyo9MKLOoWFsueri23bOdgWp4Dy1WlUzewbgBHod5pcM9H95GQRV3JDXboIRROSBigeC5yjU1hGzHHyXss8UDprecbAYxknTcQkhslANGRUZmdTOQ5qTRsLAt6BTYuyvVRdhS8exSZEy_c4gs_7svlJJQ4H9_NxsiIoLwAEk7-Q3UXERGYw_75IDrGA84-lA_-Ct4eTlXHBIY2EaV7t7LjJaynVJCpkv4LKjTTAumiGUIuQhrNhZLuF_RJLqHpM2kgWFLU7-VTdL1VbC2tejvcI2BlMkEpk1BzBZI0KQB0GaDWFLN-aEAw3vRw", "e": "AQAB", "kid": "holder-key"}),
            ]).clone();
            let parsed: Option<jsonwebtoken::jwk::Jwk> = serde_json::from_value(jwk.clone()).ok();
            if let Some(pj) = parsed {
                let canonical = serde_json::to_value(&pj).unwrap_or(Value::Null);
                let fmt = *r.pick(&[Fmt::Compact, Fmt::Json]);
                let claims = json!({"iss": "https://issuer.example/A", "exp": 4_000_000_000u64, format!("c#{k}:1;"): "v"});
                let strat = gen::gen_strategy(&mut r, &claims, StratKind::TopLevel);
                match api::issue_with_jwk(&mut issuer, &claims, &strat, Some(&jwk), false, fmt) {
                    Outcome::Ok(text) => {
                        l.count("issuer.calls.ok");
                        l.count("issuer.calls.exotic-holder-jwk");
                        let cnf = Parts::parse(fmt, &text).ok().and_then(|p| p.payload().ok()).map(|p| p["cnf"].clone()).unwrap_or(Value::Null);
                        if cnf != json!({"jwk": canonical}) {
                            l.violate(viol(case, "stale-holder-key", &format!("call#{k}"), "cnf is not the holder key given to this call".into(), json!({"given": jwk, "cnf_in_result": cnf, "earlier_calls": summary})));
                        }
                    }
                    p @ Outcome::Panic(..) => l.violate(viol(case, "panic", "issuer-call with exotic holder JWK", p.panic_signature().unwrap(), json!({"jwk": jwk}))),
                    Outcome::Err(_) => l.count("issuer.calls.exotic-holder-jwk.refused"),
                }
                summary.push(json!({"call": k, "kind": "exotic-holder-jwk", "kty": jwk["kty"]}));
                prev = Some((fmt, false, None, true));
                fp = crate::rng::mix(fp ^ 0xE07);
                continue;
            }
        }
        // ---- unusual but legitimate calls. (a) the user claims carry their own clear-text `cnf`
        // AND a holder key is passed: whatever that call returns is not judged, but nothing of it
        // (neither the key nor the user's cnf) may show up in a LATER result. (b) claims that are
        // empty / hold nothing but iss, exp: the result has no disclosure at all.
        if r.chance(10) {
            use sd_jwt_rs::ClaimsForSelectiveDisclosureStrategy as S;
            let fmt = *r.pick(&[Fmt::Compact, Fmt::Json]);
            let kind = r.below(4);
            let (claims, holder, decoys) = match kind {
                0 | 1 => (
                    json!({"iss": "https://issuer.example/A", "exp": 4_000_000_000u64, "cnf": {"jwk": {"kty": "oct", "k": format!("#{k}:998;")}, "note": format!("#{k}:997;")}, format!("c#{k}:1;"): "v"}),
                    Some((*r.pick(&[Alg::ES256, Alg::EdDSA]), r.usize(2))),
                    r.chance(50),
                ),
                2 => (json!({}), None, false),
                _ => (json!({"iss": "https://issuer.example/A", "exp": 4_000_000_000u64, "iat": 1_700_000_000u64}), None, false),
            };
            let nm = format!("$.c#{k}:1;");
            let strategy = match (kind, r.below(3)) {
                (0, _) => S::NoSDClaims,
                (1, _) => S::Custom(vec![nm.as_str()]),
                (_, 0) => S::AllLevels,
                (_, 1) => S::TopLevel,
                _ => S::NoSDClaims,
            };
            let out = api::issue_raw(&mut issuer, &claims, strategy, holder, decoys, fmt);
            l.count(&format!("issuer.calls.unusual-{kind}"));
            match &out {
                p @ Outcome::Panic(..) => l.violate(viol(case, "panic", "unusual issuer call", p.panic_signature().unwrap(), json!({"claims": claims, "history": api::history()}))),
                Outcome::Ok(text) if kind >= 2 => {
                    l.count("issuer.calls.ok");
                    match Parts::parse(fmt, text) {
                        Ok(parts) => {
                            let texts = texts_of(&parts);
                            if !parts.disclosures.is_empty() {
                                l.violate(viol(case, "earlier-disclosure-or-digest-reappears", &format!("call#{k}"), format!("{} disclosure(s) attached to a credential whose claims have nothing to hide", parts.disclosures.len()), json!({"claims": claims, "earlier_calls": summary, "disclosures": texts[1..]})));
                            } else if let Some(tag) = foreign_tags(&texts, k) {
                                l.violate(viol(case, "foreign-tag-in-result", &format!("call#{k}"), "a claim tag of another call occurs in this result".into(), json!({"claims": claims, "tag": tag, "earlier_calls": summary})));
                            } else if parts.payload().ok().map(|p| p.get("cnf").is_some()).unwrap_or(false) {
                                l.violate(viol(case, "stale-holder-key", &format!("call#{k}"), "cnf present although this call bound no holder key".into(), json!({"claims": claims, "earlier_calls": summary})));
                            }
                        }
                        Err(e) => l.violate(viol(case, "reused-issuer-result-unusable", &format!("call#{k}"), format!("undecodable result: {e}"), json!({"claims": claims, "earlier_calls": summary}))),
                    }
                }
                _ => {}
            }
            summary.push(json!({"call": k, "kind": format!("unusual-{kind}"), "result": out.class()}));
            if prev.is_some() {
                nontrivial = true;
            }
            prev = Some((fmt, decoys, holder, out.is_ok()));
            fp = crate::rng::mix(fp ^ 0x0DD ^ kind);
            continue;
        }
        // ---- a regular call with independently drawn arguments
        let profile = *r.pick(&PROFILES);
        let skind = *r.pick(&STRAT_KINDS);
        let fmt = *r.pick(&[Fmt::Compact, Fmt::Json]);
        let decoys = r.chance(50);
        let holder = match r.below(3) {
            0 => None,
            1 => Some((Alg::ES256, r.usize(2))),
            _ => Some((Alg::EdDSA, r.usize(2))),
        };
        let mut g = GenCfg::new(profile, *r.pick(&[6, 15, 30]), api::now());
        g.safe_names = skind.is_custom();
        g.tag_prefix = format!("{k}:");
        // "independently chosen" includes choosing the same claims (and strategy) as the call before
        // while format / decoys / holder key are drawn anew
        let (u, strat, tag_owner) = match (&prev_claims, r.chance(25)) {
            (Some((pu, ps, owner)), true) => {
                l.count("issuer.calls.same-claims-as-previous");
                (pu.clone(), ps.clone(), *owner)
            }
            _ => {
                let mut u = gen::gen_claims(&mut r, &g);
                if r.chance(8) {
                    // a call that makes the issuer write several hundred decoys (when decoys are on)
                    u[format!("rows#{k}:777;")] = Value::Array((0..150 + r.below(150)).map(|i| json!({"i": i % 5})).collect());
                }
                if r.chance(8) {
                    // a claim set WITHOUT some of the registered claims the previous ones had (exp, iat, iss, sub):
                    // the credential then simply does not carry them (and does not verify without exp)
                    if let Some(o) = u.as_object_mut() {
                        o.remove("exp");
                        for nm in ["iat", "iss", "sub", "nbf"] {
                            if r.chance(40) {
                                o.remove(nm);
                            }
                        }
                    }
                    l.count("issuer.calls.without-exp");
                }
                let st = gen::gen_strategy(&mut r, &u, skind);
                (u, st, k)
            }
        };
        let skind = strat.kind;
        prev_claims = Some((u.clone(), strat.clone(), tag_owner));
        let s = Scenario {
            cfg: Config {
                profile,
                strat: skind,
                fmt,
                alg,
                decoys,
                holder,
            },
            u,
            strat,
            explicit_alg: true,
        };
        let earlier = summary.clone();
        let input = || json!({"call": k, "earlier_calls": earlier, "config": s.cfg.describe(), "claims": s.u, "strategy": s.strat.describe()});
        if let Some(p) = &prev {
            if p.0 != fmt || p.1 != decoys || p.2 != holder || !p.3 {
                nontrivial = true;
            }
        }
        prev = Some((fmt, decoys, holder, true));
        fp = crate::rng::mix(fp ^ s.cfg.bits() ^ ((holder.map(|h| h.1 + 1).unwrap_or(0) as u64) << 50));
        let issued = match pipeline::issue_with(&mut issuer, &s.u, &s.strat, holder, decoys, fmt) {
            Ok(i) => i,
            Err(f) => {
                // does a fresh instance succeed on the same arguments?
                let mut fresh = api::new_issuer(alg, 0, true);
                if pipeline::issue_with(&mut fresh, &s.u, &s.strat, holder, decoys, fmt).is_ok() {
                    let obs = match f {
                        IssueFail::Call(o) => o.panic_signature().unwrap_or_else(|| o.describe()),
                        IssueFail::Decode(e) => format!("undecodable result: {e}"),
                    };
                    l.violate(viol(case, "issuer-call-fails-only-on-reused-instance", &format!("call#{k}"), obs, json!({"input": input(), "history": api::history()})));
                } else {
                    // ... and on a fresh THREAD? (state kept per thread rather than per instance)
                    let (u2, st2) = (s.u.clone(), s.strat.clone());
                    let ok_elsewhere = std::thread::spawn(move || {
                        let mut fresh = api::new_issuer(alg, 0, true);
                        pipeline::issue_with(&mut fresh, &u2, &st2, holder, decoys, fmt).is_ok()
                    })
                    .join()
                    .unwrap_or(false);
                    if ok_elsewhere {
                        l.violate(viol(case, "issuer-call-fails-only-on-reused-instance", &format!("call#{k} (fails on this thread, succeeds on a new one)"), "the same call succeeds on a fresh thread: per-thread state left behind by earlier calls".into(), json!({"input": input(), "history": api::history()})));
                    } else {
                        l.count("issuer.skipped.fails-on-fresh-too");
                    }
                }
                summary.push(json!({"call": k, "kind": "regular", "result": "err"}));
                prev = Some((fmt, decoys, holder, false));
                continue;
            }
        };
        l.count("issuer.calls.ok");
        if failed_before {
            l.count("issuer.ok-after-failing");
        }
        summary.push(json!({"call": k, "kind": "regular", "format": fmt.name(), "decoys": decoys, "holder": holder.map(|(a, i)| format!("{}#{i}", a.name())), "result": "ok"}));
        // (1) single-call oracle: structure (decoys flag, cnf of THIS call, format) ...
        let bad = check_issued(case, &s, &issued, l, &input);
        if holder.is_none() && issued.payload.get("cnf").is_some() {
            l.violate(viol(case, "stale-holder-key", &format!("call#{k}"), "cnf present although this call bound no holder key".into(), json!({"input": input(), "payload": issued.payload})));
        }
        // (1b) the protected header is what a fresh instance writes for the same arguments
        {
            let hdr_of = |jwt: &str| -> Value { jwt.split('.').next().and_then(|h| model::b64d(h).ok()).and_then(|b| serde_json::from_slice(&b).ok()).unwrap_or(Value::Null) };
            let mut fresh = api::new_issuer(alg, 0, true);
            if let Ok(f) = pipeline::issue_with(&mut fresh, &s.u, &s.strat, holder, decoys, fmt) {
                let (a, b) = (hdr_of(&issued.parts.jwt), hdr_of(&f.parts.jwt));
                if a != b {
                    l.violate(viol(case, "header-differs-from-fresh-issuer", &format!("call#{k}"), "protected header of a reused issuer's result differs from a fresh issuer's".into(), json!({"input": input(), "reused": a, "fresh": b})));
                } else {
                    l.count("issuer.header-equal-to-fresh");
                }
            }
        }
        // (2) nothing from other calls
        let texts = texts_of(&issued.parts);
        if let Some(tag) = foreign_tags(&texts, tag_owner) {
            l.violate(viol(case, "foreign-tag-in-result", &format!("call#{k}"), "a claim tag of another call occurs in this result".into(), json!({"input": input(), "tag": tag, "payload": issued.payload})));
        }
        let mut mine: Vec<String> = issued.parts.disclosures.clone();
        mine.extend(issued.loc.digest_uses.keys().cloned());
        for x in &mine {
            if seen_strings.contains(x) {
                l.violate(viol(case, "earlier-disclosure-or-digest-reappears", &format!("call#{k}"), "a disclosure / digest of an earlier result occurs again".into(), json!({"input": input(), "string": x})));
                break;
            }
        }
        seen_strings.extend(mine);
        // (3) ... and the view: select-all and one random selection through fresh holder + verifier
        if bad == 0 {
            let jwk = holder.map(|(a, i)| keys::holder_jwk_json_canonical(a, i));
            let sel = pipeline::random_selection(&mut r, &s.u);
            let (exp, _) = model::view(&s.u, &sel, &s.strat.sd);
            let exp = model::with_cnf(exp, jwk.as_ref());
            let kb: Option<KbArgs> = holder.filter(|_| r.chance(50)).map(|h| pipeline::kb_args_for(&mut r, h));
            let got = match api::holder_new(&issued.sd_jwt, fmt) {
                Outcome::Ok(mut h) => match api::present(&mut h, &sel, kb.as_ref()) {
                    Outcome::Ok(p) => api::verify(&p, &Resolver::Fixed(alg, 0), kb.as_ref().map(|k| (k.aud.as_str(), k.nonce.as_str())), fmt).out,
                    other => other.map(|_| Value::Null),
                },
                other => other.map(|_| Value::Null),
            };
            match got {
                _ if s.u.get("exp").is_none() => match got {
                    Outcome::Ok(v) => l.violate(viol(case, "stale-registered-claim", &format!("call#{k}"), "a credential issued from claims without exp verifies".into(), json!({"input": input(), "got": v}))),
                    p @ Outcome::Panic(..) => l.violate(viol(case, "panic", &format!("call#{k}"), p.panic_signature().unwrap_or_default(), json!({"input": input()}))),
                    _ => l.count("issuer.result.without-exp-refused"),
                },
                Outcome::Ok(v) if v == exp => l.count("issuer.result.verifies-to-model"),
                Outcome::Ok(v) => l.violate(viol(case, "reused-issuer-result-verifies-differently", &format!("call#{k}"), "verified claims differ from the model".into(), json!({"input": input(), "selection": sel, "got": v, "expected": exp}))),
                other => l.violate(viol(case, "reused-issuer-result-unusable", &format!("call#{k}"), other.panic_signature().unwrap_or_else(|| other.describe()), json!({"input": input(), "selection": sel, "history": api::history()}))),
            }
        }
    }
    if len >= 2 && nontrivial {
        l.distinct(crate::rng::mix(fp ^ 0x155));
    }
    l.sample(case, || json!({"issuer_history": summary}));
}

fn holder_history(ctx: &Ctx, case: u64, l: &mut Local) {
    let mut r = Rng::for_case(ctx.seed, STREAM + 100, case);
    let mut cfg = Config::from_index(case);
    // key-bound credentials in 2/3 of the histories so that KB arguments can vary
    if cfg.holder.is_none() && r.chance(50) {
        cfg.holder = Some((*r.pick(&[Alg::ES256, Alg::EdDSA]), 0));
    }
    let s = pipeline::gen_scenario(ctx, &mut r, cfg.clone());
    let issued = match pipeline::issue_scenario(&s) {
        Ok(i) if i.loc.complaints.is_empty() => i,
        _ => {
            l.count("holder.skipped.issue");
            return;
        }
    };
    // a few holders are used SLOWLY: eight key-bound presentations 0.8 s apart (time-throttled or cached clock
    // readings show only when calls are less than a second apart over several seconds)
    let slow = case % 2048 == 77 && cfg.holder.is_some();
    let len = if slow { 8 } else { 1 + r.below(8) as usize };
    let with_failures = !slow && r.chance(50);
    let base_input = || json!({"config": cfg.describe(), "claims": s.u, "strategy": s.strat.describe()});
    let mut holder = match api::holder_new(&issued.sd_jwt, cfg.fmt) {
        Outcome::Ok(h) => h,
        _ => return,
    };
    let mut earlier_kbs: HashSet<String> = HashSet::new();
    let mut prev_args: Option<(Value, Option<KbArgs>)> = None;
    let mut failed_before = false;
    let mut summary: Vec<Value> = vec![];
    let mut prev_kb: Option<bool> = None;
    let mut nontrivial = false;
    let mut fp = 0u64;
    for k in 0..len {
        l.evals += 1;
        if with_failures && r.chance(35) {
            let sel_ok = pipeline::random_selection(&mut r, &s.u);
            let kind = r.below(14);
            type A = (Value, Option<String>, Option<String>, Option<(Alg, usize)>, Option<String>);
            let args: A = match kind {
                0 => (sel_ok.clone(), Some("n".into()), None, None, None),
                1 => (sel_ok.clone(), None, Some("a".into()), cfg.holder.or(Some((Alg::ES256, 1))), None),
                2 => (json!({"no-such-claim#zz;": true}), None, None, None, None),
                3 => (json!({"no-such-claim#zz;": {"x": true}}), None, None, None, None),
                4 => (sel_ok.clone(), Some("n".into()), Some("a".into()), Some(cfg.holder.unwrap_or((Alg::ES256, 1))), Some("NOPE256".into())),
                // blank (but present) nonce / aud without a key
                5 => (sel_ok.clone(), Some(String::new()), Some(String::new()), None, None),
                6 => (sel_ok.clone(), Some(String::new()), None, None, None),
                7 => (sel_ok.clone(), None, Some(String::new()), None, None),
                // nonce and aud but NO key (with or without an algorithm name)
                12 => (sel_ok.clone(), Some("n".into()), Some("a".into()), None, if r.chance(50) { Some("ES256".into()) } else { None }),
                // complete key-binding arguments, well-known algorithm name that does not fit the key
                // (fails late: after the disclosures were selected and the sd_hash was computed)
                11 => {
                    let hk = cfg.holder.unwrap_or((Alg::ES256, 1));
                    (sel_ok.clone(), Some("n".into()), Some("a".into()), Some(hk), Some((*r.pick(&["RS256", "PS256", "HS256", "ES384", if hk.0 == Alg::ES256 { "EdDSA" } else { "ES256" }])).to_string()))
                }
                // a name that exists one level DOWN, asked for at the top level (where it does not exist)
                10 => {
                    let nested: Option<String> = s.u.as_object().and_then(|m| m.values().filter_map(|v| v.as_object()).flat_map(|o| o.keys()).find(|k| !m.contains_key(*k)).cloned());
                    let mut sel = serde_json::Map::new();
                    sel.insert(nested.unwrap_or_else(|| "no-such-claim#zz;".into()), json!(true));
                    (Value::Object(sel), None, None, None, None)
                }
                // complete key-binding arguments whose algorithm name is spelled in another case / with blanks
                8 | 9 => {
                    let hk = cfg.holder.unwrap_or((Alg::ES256, 1));
                    let name = if hk.0 == Alg::ES256 { *r.pick(&["es256", "Es256", " ES256", "ES256 "]) } else { *r.pick(&["eddsa", "EDDSA", "Eddsa", "EdDSA "]) };
                    (sel_ok.clone(), Some("n".into()), Some("a".into()), Some(hk), Some(name.to_string()))
                }
                // a selector that fails INSIDE a claim: a wrong shape / unknown child below a real member
                _ => {
                    let mut sel = sel_ok.clone();
                    if let Some(o) = sel.as_object_mut() {
                        let keys: Vec<String> = s.u.as_object().map(|m| m.iter().filter(|(k, v)| (v.is_object() || v.is_array()) && !["iss", "exp", "iat"].contains(&k.as_str())).map(|(k, _)| k.clone()).collect()).unwrap_or_default();
                        if let Some(k) = keys.first() {
                            let bad = if s.u[k.as_str()].is_object() { json!({"no-such-child#zz;": true}) } else { json!({"x": true}) };
                            o.insert(k.clone(), bad);
                        } else {
                            o.insert("no-such-claim#zz;".into(), json!(true));
                        }
                    }
                    (sel, None, None, None, None)
                }
            };
            let out = api::present_raw(&mut holder, &args.0, args.1.clone(), args.2.clone(), args.3, args.4.clone());
            l.count("holder.calls.failing");
            if out.is_panic() {
                l.violate(viol(case, "panic", "failing-holder-call", out.panic_signature().unwrap(), json!({"base": base_input(), "history": api::history()})));
            } else if let Outcome::Ok(mut fresh) = api::holder_new(&issued.sd_jwt, cfg.fmt) {
                // whether such a call fails must not depend on what the instance did before
                let f = api::present_raw(&mut fresh, &args.0, args.1.clone(), args.2.clone(), args.3, args.4.clone());
                if f.class() != out.class() {
                    l.violate(viol(case, "holder-call-outcome-depends-on-history", &format!("{} odd call kind {kind}", cfg.fmt.name()), format!("reused instance: {}, fresh instance: {}", out.class(), f.class()), json!({"base": base_input(), "earlier_calls": summary, "selection": args.0, "nonce": args.1, "aud": args.2, "key": format!("{:?}", args.3), "alg": args.4})));
                } else if let (Outcome::Ok(a), Outcome::Ok(b)) = (&out, &f) {
                    // both succeed (e.g. blank nonce tolerated): without key binding the output is deterministic
                    if args.3.is_none() && a != b {
                        l.violate(viol(case, "differs-from-fresh-holder", &format!("reused-holder {} odd call kind {kind}", cfg.fmt.name()), "output differs from a fresh holder's for the same arguments".into(), json!({"base": base_input(), "earlier_calls": summary, "reused": a, "fresh": b})));
                    }
                }
            }
            summary.push(json!({"call": k, "kind": format!("failing-{kind}"), "result": out.class()}));
            if prev_kb.is_some() {
                nontrivial = true;
            }
            failed_before = true;
            fp = crate::rng::mix(fp ^ 0xF0 ^ kind);
            continue;
        }
        // arguments are drawn independently — which includes drawing the SAME selection / aud /
        // nonce as the previous call (30 %) and signing with another key than the confirmed one (25 %)
        let repeat = prev_args.is_some() && r.chance(30);
        let sel = if repeat { prev_args.as_ref().unwrap().0.clone() } else { pipeline::random_selection(&mut r, &s.u) };
        let (_, d) = model::view(&s.u, &sel, &s.strat.sd);
        let mut kb: Option<KbArgs> = cfg.holder.filter(|_| slow || r.chance(if repeat { 85 } else { 50 })).map(|h| pipeline::kb_args_for(&mut r, h));
        if slow {
            l.count("holder.calls.slow-sequence");
            std::thread::sleep(std::time::Duration::from_millis(800));
        }
        if let (true, Some(k), Some((_, Some(pk)))) = (repeat, kb.as_mut(), prev_args.as_ref()) {
            k.aud = pk.aud.clone();
            k.nonce = pk.nonce.clone();
            k.explicit_alg = pk.explicit_alg;
        }
        if let Some(k) = kb.as_mut() {
            if r.chance(25) {
                k.key_idx = 1;
            }
            // the nonce of the previous key-bound call again, for another audience
            if let (false, Some((_, Some(pk)))) = (repeat, prev_args.as_ref()) {
                if r.chance(20) {
                    k.nonce = pk.nonce.clone();
                }
            }
        }
        prev_args = Some((sel.clone(), kb.clone()));
        let earlier = summary.clone();
        let input = || json!({"base": base_input(), "call": k, "earlier_calls": earlier, "selection": sel, "kb": kb.as_ref().map(|k| json!({"aud": k.aud.chars().take(30).collect::<String>(), "nonce": k.nonce.chars().take(30).collect::<String>()}))});
        if let Some(p) = prev_kb {
            if p != kb.is_some() || failed_before {
                nontrivial = true;
            }
        }
        prev_kb = Some(kb.is_some());
        fp = crate::rng::mix(fp ^ (d.len() as u64) ^ ((kb.is_some() as u64) << 20));
        let t_before = api::now();
        let pres_out = api::present(&mut holder, &sel, kb.as_ref());
        let t_after = api::now();
        let pres = match pres_out {
            Outcome::Ok(p) => p,
            other => {
                let fresh_ok = match api::holder_new(&issued.sd_jwt, cfg.fmt) {
                    Outcome::Ok(mut h) => api::present(&mut h, &sel, kb.as_ref()).is_ok(),
                    _ => false,
                };
                if fresh_ok {
                    l.violate(viol(case, "holder-call-fails-only-on-reused-instance", &format!("{} call#{}", cfg.fmt.name(), if k == 0 { "0".to_string() } else { ">=1".into() }), other.panic_signature().unwrap_or_else(|| other.describe()), json!({"input": input(), "history": api::history()})));
                } else {
                    l.count("holder.skipped.fails-on-fresh-too");
                }
                summary.push(json!({"call": k, "kind": "regular", "result": "err"}));
                continue;
            }
        };
        l.count("holder.calls.ok");
        if failed_before {
            l.count("holder.ok-after-failing");
        }
        if k >= 1 {
            l.count(&format!("holder.{}.second-or-later-ok", cfg.fmt.name()));
        }
        summary.push(json!({"call": k, "kind": "regular", "kb": kb.is_some(), "disclosed": d.len(), "result": "ok"}));
        match check_presentation(cfg.fmt, &pres, &issued, &d, kb.is_some()) {
            Err((sub, obs, extra)) => {
                l.violate(viol(case, sub, &format!("reused-holder {}", cfg.fmt.name()), obs, json!({"input": input(), "extra": extra, "presentation": pres})));
                continue;
            }
            Ok(parts) => {
                match &kb {
                    None => {
                        // deterministic: byte-equal to a fresh holder's output
                        if let Outcome::Ok(mut h) = api::holder_new(&issued.sd_jwt, cfg.fmt) {
                            if let Outcome::Ok(p2) = api::present(&mut h, &sel, None) {
                                if p2 != pres {
                                    l.violate(viol(case, "differs-from-fresh-holder", &format!("reused-holder {}", cfg.fmt.name()), "output differs from a fresh holder's for the same arguments".into(), json!({"input": input(), "reused": pres, "fresh": p2})));
                                } else {
                                    l.count("holder.byte-equal-to-fresh");
                                }
                            }
                        }
                    }
                    Some(ka) => {
                        if let Err(e) = check_kb_shape(&parts, &ka.aud, &ka.nonce) {
                            l.violate(viol(case, "kb-shape", &format!("reused-holder {}", cfg.fmt.name()), e, json!({"input": input(), "presentation": pres})));
                        }
                        // its iat is the time of THIS call (not a value carried over / advanced from earlier ones)
                        let iat = parts.kb.as_deref().and_then(|k| k.split('.').nth(1)).and_then(|p| model::b64d(p).ok()).and_then(|b| serde_json::from_slice::<Value>(&b).ok()).and_then(|v| v.get("iat").and_then(Value::as_u64));
                        match iat {
                            Some(i) if i + 2 >= t_before && i <= t_after + 2 => l.count("holder.kb-iat-within-call-window"),
                            other => l.violate(viol(case, "kb-iat-not-the-time-of-this-call", &format!("reused-holder {}", cfg.fmt.name()), format!("iat={other:?}, call between {t_before} and {t_after}"), json!({"input": input()}))),
                        }
                        // NOTE: an identical KB-JWT string may legitimately recur (EdDSA signatures are
                        // deterministic; same aud, nonce, selection and second give the same JWT). A stale
                        // KB-JWT of a call with OTHER arguments is caught by check_kb_shape above.
                        let kbs = parts.kb.clone().unwrap_or_default();
                        if earlier_kbs.contains(&kbs) {
                            l.count("holder.kb-jwt-identical-to-an-earlier-one(legitimate)");
                        }
                        earlier_kbs.insert(kbs.clone());
                        // the KB-JWT must be signed with the key THIS call passed
                        let signer_ok = |idx: usize| -> bool {
                            let jwk = keys::holder_jwk(ka.alg, idx);
                            let mut val = jsonwebtoken::Validation::new(ka.alg.jwt());
                            val.validate_exp = false;
                            val.validate_aud = false;
                            val.required_spec_claims.clear();
                            jsonwebtoken::DecodingKey::from_jwk(&jwk).ok().map(|dk| jsonwebtoken::decode::<Value>(&kbs, &dk, &val).is_ok()).unwrap_or(false)
                        };
                        if !signer_ok(ka.key_idx) || signer_ok(1 - ka.key_idx) {
                            l.violate(viol(case, "kb-jwt-signed-with-another-calls-key", &format!("reused-holder {}", cfg.fmt.name()), "KB-JWT does not verify under the key passed to this call (or verifies under the other key)".into(), json!({"input": input(), "key_idx": ka.key_idx})));
                        } else {
                            l.count("holder.kb-signer-checked");
                        }
                        if ka.key_idx != 0 {
                            // signed with a key the credential does not confirm: the verifier must refuse
                            let v = api::verify(&pres, &Resolver::Fixed(cfg.alg, 0), Some((ka.aud.as_str(), ka.nonce.as_str())), cfg.fmt);
                            if v.out.is_ok() {
                                l.violate(viol(case, "kb-by-unconfirmed-key-accepted", &format!("reused-holder {}", cfg.fmt.name()), "Ok".into(), json!({"input": input()})));
                            }
                            continue;
                        }
                        // and it verifies
                        let v = api::verify(&pres, &Resolver::Fixed(cfg.alg, 0), Some((ka.aud.as_str(), ka.nonce.as_str())), cfg.fmt);
                        if !v.out.is_ok() {
                            l.violate(viol(case, "reused-holder-kb-presentation-rejected", &format!("reused-holder {}", cfg.fmt.name()), v.out.panic_signature().unwrap_or_else(|| v.out.describe()), json!({"input": input(), "history": api::history()})));
                        } else {
                            l.count("holder.kb-presentation-verified");
                        }
                    }
                }
            }
        }
    }
    if len >= 2 && nontrivial {
        l.distinct(crate::rng::mix(fp ^ 0x401D ^ cfg.bits()));
    }
    let _ = StratKind::NoSD;
}
