//! C10 — Compact and JSON serialisations are interchangeable.
//! Relational (differential) monitor: the same triple (issuer-signed JWT, disclosure list,
//! KB-JWT or none) is encoded in both formats by the harness's own encoder; verifier outcome
//! class and claims must agree, for honest and tampered triples, with and without key binding;
//! holders built from either form must select the same disclosures.

use crate::api::{self, Outcome, Resolver};
use crate::evidence::{run_cases, Ctx, Local, Report, Violation};
use crate::keys::Alg;
use crate::model::{self, b64e, Fmt, Parts};
use crate::pipeline::{self, Config};
use crate::rng::Rng;
use crate::tamper::{self, alphabet69, CharOp};
use serde_json::{json, Value};

const STREAM: u64 = 10;

const CLASSES: [&str; 38] = [
    "honest",
    "kb-removed",
    "jwt-char",
    "jwt-payload-reencoded",
    "jwt-sig-truncated",
    "jwt-alg-none",
    "disc-char",
    "disc-removed",
    "disc-added",
    "disc-reordered",
    "disc-duplicated",
    "disc-forged",
    "disc-garbage",
    "disc-repadded",
    "kb-char",
    "kb-other-key",
    "kb-typ",
    "kb-sd_hash-other",
    "kb-on-unbound",
    "jwt-other-key",
    "kb-garbage",
    "disc-empty-list",
    "resigned-no-exp",
    "resigned-expired",
    "resigned-nbf-future",
    "resigned-exp-non-numeric",
    "kb-is-a-disclosure",
    "kb-is-a-forged-disclosure",
    "kb-nonce-other",
    "kb-aud-other",
    "kb-sd_hash-absent",
    "jwt-extra-segment",
    "part-edge-char",
    "kb-claim-type-confusion",
    "resigned-header-typ",
    "resigned-header-extra",
    "resigned-exp-within-leeway",
    "disc-invalid-utf8",
];

pub fn run(ctx: &Ctx) -> Report {
    let n = ctx.cases(10_000, 250_000);
    let local = run_cases(ctx, n, |case, l| one_case(ctx, case, l));
    let mut rep = Report::new(
        "exploration",
        "case = one honest presentation (C01 configuration enumeration; key-bound credentials present with a KB-JWT 60% of the time) x \
         22 triple classes (honest + the tamper classes of C02-C04, random positions) x {verified without, with aud/nonce}; each triple \
         is encoded as Compact and as JSON (kb_jwt absent / null / string, extra unknown members, member order permuted) and both are \
         verified; plus holder equivalence on the transcoded issued SD-JWT. evaluations = format pairs compared. Distinct = (credential, \
         class, kb-request, JSON variant); non-trivial = every pair (both sides are real verifier runs).",
        local,
    );
    rep.assumptions = vec![
        "error kinds may differ between formats; only the outcome class (Ok/Err) and the claims are compared".into(),
        "triples whose parts contain '~', or whose JWT is not three dot-separated segments, cannot be expressed in both grammars and are excluded (counted)".into(),
    ];
    rep.floor("pair.same-accept", 2_000);
    rep.floor("pair.same-reject", 10_000);
    rep.floor("holder.same-selection", 1_000);
    for c in CLASSES {
        rep.floor(&format!("class.{c}"), 100);
    }
    rep
}

fn sd_hash_of(jwt: &str, ds: &[String]) -> String {
    let mut s = jwt.to_string();
    for d in ds {
        s.push('~');
        s.push_str(d);
    }
    s.push('~');
    model::digest_of(&s)
}

fn one_case(ctx: &Ctx, case: u64, l: &mut Local) {
    let mut r = Rng::for_case(ctx.seed, STREAM, case);
    let cfg = Config::from_index(case);
    let fmt0 = cfg.fmt;
    let s = pipeline::gen_scenario(ctx, &mut r, cfg.clone());
    let issued = match pipeline::issue_scenario(&s) {
        Ok(i) => i,
        Err(_) => {
            l.count("skipped.issue");
            return;
        }
    };
    let sel = pipeline::random_selection(&mut r, &s.u);
    let kb = match cfg.holder {
        Some(h) if r.chance(60) => Some(pipeline::kb_args_for(&mut r, h)),
        _ => None,
    };
    let desc = json!({"config": cfg.describe(), "selection": sel, "kb": kb.is_some()});
    l.sample(case, || desc.clone());

    // ---- holder equivalence on the transcoded issued SD-JWT
    {
        let other = fmt0.other();
        if let Some(trans) = issued.parts.encode(other, r.next()) {
            let run = |f: Fmt, text: &str| -> Outcome<Vec<String>> {
                match api::holder_new(text, f) {
                    Outcome::Ok(mut h) => api::present(&mut h, &sel, None).map(|p| {
                        let mut d = Parts::parse(f, &p).map(|x| x.disclosures).unwrap_or_default();
                        d.sort();
                        d
                    }),
                    o => o.map(|_| vec![]),
                }
            };
            let a = run(fmt0, &issued.sd_jwt);
            let b = run(other, &trans);
            l.evals += 1;
            // the two holders' own (key-bound) presentations meet the same fate at the verifier
            if let Some(k) = &kb {
                let full = |f: Fmt, text: &str| -> &'static str {
                    match api::holder_new(text, f) {
                        Outcome::Ok(mut h) => match api::present(&mut h, &sel, Some(k)) {
                            Outcome::Ok(p) => api::verify(&p, &Resolver::Fixed(cfg.alg, 0), Some((k.aud.as_str(), k.nonce.as_str())), f).out.class(),
                            o => if o.is_panic() { "panic" } else { "present-err" },
                        },
                        o => if o.is_panic() { "panic" } else { "holder-err" },
                    }
                };
                // ... and ONE holder of each form used twice (key-bound presentation for this selection,
                // then an unbound one for a narrower selection) ends up with the same disclosures
                let sel_b = crate::gen::narrow_selection(&mut r, &sel);
                let twice = |f: Fmt, text: &str| -> Outcome<Vec<String>> {
                    match api::holder_new(text, f) {
                        Outcome::Ok(mut h) => {
                            // a refused call first (unknown claim / incomplete key-binding arguments), then the two real ones
                            let _ = api::present_raw(&mut h, &json!({"no-such-claim#zz;": true}), None, None, None, None);
                            let _ = api::present_raw(&mut h, &sel, Some("n".into()), None, None, None);
                            let _ = api::present(&mut h, &sel, Some(k));
                            api::present(&mut h, &sel_b, None).map(|p| {
                                let mut d = Parts::parse(f, &p).map(|x| x.disclosures).unwrap_or_default();
                                d.sort();
                                d
                            })
                        }
                        o => o.map(|_| vec![]),
                    }
                };
                let (ta, tb) = (twice(fmt0, &issued.sd_jwt), twice(other, &trans));
                l.evals += 1;
                if (ta == tb && ta.is_ok()) || (ta.class() == tb.class() && !ta.is_ok()) {
                    l.count("holder.reused.same-selection");
                } else {
                    l.violate(Violation {
                        subcheck: "holder-selection-differs-between-formats".into(),
                        class: format!("reused holder, key-bound then unbound presentation ({} vs {})", fmt0.name(), other.name()),
                        observed: format!("{} vs {}", ta.class(), tb.class()),
                        case,
                        detail: json!({"credential": desc, "second_selection": sel_b, "first": ta.ok(), "second": tb.ok()}),
                    });
                }
                let (va, vb) = (full(fmt0, &issued.sd_jwt), full(other, &trans));
                l.evals += 1;
                if va == vb {
                    l.count("holder.key-bound-presentations.same-verdict");
                } else {
                    l.violate(Violation {
                        subcheck: "formats-diverge".into(),
                        class: "key-bound presentation made by a holder of each form of the issued SD-JWT".into(),
                        observed: format!("{}={} {}={}", fmt0.name(), va, other.name(), vb),
                        case,
                        detail: json!({"credential": desc, "history": api::history()}),
                    });
                }
            }
            if a == b && a.is_ok() {
                l.count("holder.same-selection");
            } else if a.class() == b.class() && !a.is_ok() {
                l.count("holder.same-failure");
            } else {
                l.violate(Violation {
                    subcheck: "holder-selection-differs-between-formats".into(),
                    class: format!("{}->{}", fmt0.name(), other.name()),
                    observed: format!("{} vs {}", a.class(), b.class()),
                    case,
                    detail: json!({"credential": desc, "history": api::history()}),
                });
            }
        }
    }

    // ---- issuers of the other JWS families (RSA of 2048 / 3072 / 4096 bits, P-384) through the signing
    // oracle: the same signed payload and disclosures in both forms, honest and with one character of
    // the signature changed
    if case % 16 == 9 {
        if let Ok(pl) = issued.parts.payload() {
            let names: Vec<&str> = crate::keys::EXTRA_ALGS.iter().copied().chain(crate::keys::BIG_RSA.iter().copied()).collect();
            let an = *r.pick(&names);
            let mut h = jsonwebtoken::Header::new(crate::keys::extra_alg(an));
            h.typ = None;
            if let Ok(jwt) = jsonwebtoken::encode(&h, &pl, &crate::keys::extra_enc(an)) {
                for tampered in [false, true] {
                    let mut t = Parts { jwt: jwt.clone(), disclosures: issued.parts.disclosures.clone(), kb: None };
                    if tampered {
                        let pos = t.jwt.len() - 1 - r.usize(40);
                        let c = t.jwt.as_bytes()[pos];
                        t.jwt = format!("{}{}{}", &t.jwt[..pos], if c == b'A' { 'B' } else { 'A' }, &t.jwt[pos + 1..]);
                    }
                    if let (c, Some(j)) = (t.to_compact(), t.to_json(r.next())) {
                        let a = api::verify(&c, &Resolver::Extra(an), None, Fmt::Compact).out;
                        let b = api::verify(&j, &Resolver::Extra(an), None, Fmt::Json).out;
                        l.evals += 1;
                        let same = match (&a, &b) {
                            (Outcome::Ok(x), Outcome::Ok(y)) => x == y,
                            (Outcome::Err(_), Outcome::Err(_)) => true,
                            _ => false,
                        };
                        if same && (tampered || a.is_ok()) {
                            l.count(if tampered { "pair.extra-alg.same-reject" } else { "pair.extra-alg.same-accept" });
                        } else {
                            l.violate(Violation {
                                subcheck: "formats-diverge".into(),
                                class: format!("issuer key {an} ({})", if tampered { "signature character changed" } else { "honest" }),
                                observed: format!("Compact={} JSON={}", a.class(), b.class()),
                                case,
                                detail: json!({"credential": desc, "issuer_key": an, "compact_result": a.describe().chars().take(200).collect::<String>(), "json_result": b.describe().chars().take(200).collect::<String>()}),
                            });
                        }
                    }
                }
            }
        }
    }
    let pres = match api::holder_new(&issued.sd_jwt, fmt0) {
        Outcome::Ok(mut h) => match api::present(&mut h, &sel, kb.as_ref()) {
            Outcome::Ok(p) => p,
            _ => return,
        },
        _ => return,
    };
    let honest = match Parts::parse(fmt0, &pres) {
        Ok(p) => p,
        Err(_) => {
            // the library's own output does not follow the strict grammar (C06 reports that); still
            // compare it, as it is, with its re-expression in the other format
            let lenient: Option<Parts> = if fmt0 == Fmt::Json {
                serde_json::from_str::<Value>(&pres).ok().and_then(|v| {
                    let g = |k: &str| v.get(k).and_then(Value::as_str).map(String::from);
                    Some(Parts {
                        jwt: format!("{}.{}.{}", g("protected")?, g("payload")?, g("signature")?),
                        disclosures: v.get("disclosures").and_then(Value::as_array).map(|a| a.iter().filter_map(|d| d.as_str().map(String::from)).collect()).unwrap_or_default(),
                        kb: g("kb_jwt"),
                    })
                })
            } else {
                None
            };
            if let Some(p) = lenient {
                let pair = kb.as_ref().map(|k| (k.aud.as_str(), k.nonce.as_str()));
                let a = api::verify(&pres, &Resolver::Fixed(cfg.alg, 0), pair, fmt0).out;
                let b = api::verify(&p.to_compact(), &Resolver::Fixed(cfg.alg, 0), pair, Fmt::Compact).out;
                l.evals += 1;
                let same = match (&a, &b) {
                    (Outcome::Ok(x), Outcome::Ok(y)) => x == y,
                    (Outcome::Err(_), Outcome::Err(_)) => true,
                    _ => false,
                };
                if !same {
                    l.violate(Violation { subcheck: "formats-diverge".into(), class: "library output as produced vs its compact re-expression".into(), observed: format!("JSON={} Compact={}", a.class(), b.class()), case, detail: json!({"credential": desc, "json_as_produced": pres}) });
                }
            }
            return;
        }
    };
    // ---- holder equivalence on the PRESENTATION (with or without KB-JWT): a second holder built from
    // either form of it narrows to the same disclosures
    {
        let other = fmt0.other();
        if let Some(trans) = honest.encode(other, r.next()) {
            let sel2 = crate::gen::narrow_selection(&mut r, &sel);
            let run = |f: Fmt, text: &str| -> Outcome<Vec<String>> {
                match api::holder_new(text, f) {
                    Outcome::Ok(mut h) => api::present(&mut h, &sel2, None).map(|p| {
                        let mut d = Parts::parse(f, &p).map(|x| x.disclosures).unwrap_or_default();
                        d.sort();
                        d
                    }),
                    o => o.map(|_| vec![]),
                }
            };
            let a = run(fmt0, &pres);
            let b = run(other, &trans);
            l.evals += 1;
            if a == b && a.is_ok() {
                l.count("holder.same-selection-from-presentation");
            } else if a.class() == b.class() && !a.is_ok() {
                l.count("holder.same-failure-from-presentation");
            } else {
                l.violate(Violation {
                    subcheck: "holder-selection-differs-between-formats".into(),
                    class: format!("holder built from a presentation {}->{} (kb={})", fmt0.name(), other.name(), honest.kb.is_some()),
                    observed: format!("{} vs {}", a.class(), b.class()),
                    case,
                    detail: json!({"credential": desc, "narrowed_selection": sel2, "history": api::history()}),
                });
            }
        }
    }
    let (aud, nonce) = kb.as_ref().map(|k| (k.aud.clone(), k.nonce.clone())).unwrap_or(("aud-x".into(), "nonce-x".into()));
    let resolver = Resolver::Fixed(cfg.alg, 0);
    let alpha = alphabet69();
    let halg = cfg.holder.map(|h| h.0).unwrap_or(Alg::ES256);
    let kb_payload = |t: &Parts| json!({"nonce": nonce, "aud": aud, "iat": api::now(), "sd_hash": sd_hash_of(&t.jwt, &t.disclosures)});

    for class in CLASSES {
        let mut t = honest.clone();
        let mut res = resolver.clone();
        match class {
            "honest" => {}
            "kb-removed" => t.kb = None,
            "jwt-char" => {
                let pos = r.usize(t.jwt.len());
                let op = match r.below(3) {
                    0 => CharOp::Sub(*r.pick(&alpha)),
                    1 => CharOp::Del,
                    _ => CharOp::Ins(*r.pick(&alpha)),
                };
                if let Some(e) = tamper::apply(&t.jwt, pos, op) {
                    t.jwt = e;
                }
            }
            "jwt-payload-reencoded" => {
                if let Some(e) = tamper::reencode_segment(&t.jwt, 1, |v| {
                    if r.chance(50) {
                        v["extra#c10;"] = json!(1);
                    } else {
                        tamper::flip_first_digest(v);
                    }
                }) {
                    t.jwt = e;
                }
            }
            "jwt-sig-truncated" => {
                let k = 1 + r.usize(3);
                t.jwt.truncate(t.jwt.len().saturating_sub(k));
            }
            "jwt-alg-none" => {
                if let Some(e) = tamper::reencode_segment(&t.jwt, 0, |v| v["alg"] = json!(*r.pick(&["none", "HS256", "ES384", "zz"]))) {
                    t.jwt = e;
                }
            }
            "jwt-other-key" => res = Resolver::Fixed(cfg.alg, 1),
            "disc-char" => {
                if !t.disclosures.is_empty() {
                    let i = r.usize(t.disclosures.len());
                    let pos = r.usize(t.disclosures[i].len());
                    let op = match r.below(3) {
                        0 => CharOp::Sub(*r.pick(&alpha)),
                        1 => CharOp::Del,
                        _ => CharOp::Ins(*r.pick(&alpha)),
                    };
                    if let Some(e) = tamper::apply(&t.disclosures[i], pos, op) {
                        t.disclosures[i] = e;
                    }
                }
            }
            "disc-removed" => {
                if !t.disclosures.is_empty() {
                    let i = r.usize(t.disclosures.len());
                    t.disclosures.remove(i);
                }
            }
            "disc-added" => {
                if let Some(x) = issued.parts.disclosures.iter().find(|d| !t.disclosures.contains(d)) {
                    let at = r.usize(t.disclosures.len() + 1);
                    t.disclosures.insert(at, x.clone());
                }
            }
            "disc-reordered" => {
                t.disclosures.reverse();
            }
            "disc-duplicated" => {
                if !t.disclosures.is_empty() {
                    let i = r.usize(t.disclosures.len());
                    let x = t.disclosures[i].clone();
                    if r.chance(50) {
                        // the copy right behind the original (consecutive repeats), else at the end
                        t.disclosures.insert(i + 1, x);
                    } else {
                        t.disclosures.push(x);
                    }
                }
            }
            "disc-forged" => {
                t.disclosures.push(b64e(json!(["s", *r.pick(&["iss", "cnf", "newclaim", "exp"]), "EVIL"]).to_string().as_bytes()));
            }
            "disc-garbage" => {
                t.disclosures.push((*r.pick(&["!!!", "e30", "W10", "bnVsbA", "", "AAAA", "IiI", "eyJhIjoxfQ", "eyJhbGciOiJub25lIn0", "NDI", "dHJ1ZQ"])).to_string());
            }
            "disc-repadded" => {
                // the same octets spelled differently: '=' padding, or the standard base64 alphabet where the
                // text has '-' / '_' (both forms must treat the respelled string alike)
                let swappable: Vec<usize> = t.disclosures.iter().enumerate().filter(|(_, d)| d.contains('-') || d.contains('_')).map(|(i, _)| i).collect();
                if !swappable.is_empty() && r.chance(70) {
                    let i = *r.pick(&swappable);
                    t.disclosures[i] = t.disclosures[i].replace('-', "+").replace('_', "/");
                } else if !t.disclosures.is_empty() {
                    let i = r.usize(t.disclosures.len());
                    t.disclosures[i].push('=');
                }
            }
            "disc-empty-list" => t.disclosures.clear(),
            "kb-char" => {
                if let Some(k) = &t.kb {
                    let pos = r.usize(k.len());
                    let op = match r.below(3) {
                        0 => CharOp::Sub(*r.pick(&alpha)),
                        1 => CharOp::Del,
                        _ => CharOp::Ins(*r.pick(&alpha)),
                    };
                    if let Some(e) = tamper::apply(k, pos, op) {
                        t.kb = Some(e);
                    }
                }
            }
            "kb-other-key" => t.kb = Some(api::sign_kb(halg, 1, &kb_payload(&t), Some("kb+jwt"))),
            "kb-typ" => t.kb = Some(api::sign_kb(halg, 0, &kb_payload(&t), *r.pick(&[None, Some("jwt"), Some("KB+JWT")]))),
            "kb-sd_hash-other" => {
                let mut p = kb_payload(&t);
                p["sd_hash"] = json!(sd_hash_of(&t.jwt, &issued.parts.disclosures[..issued.parts.disclosures.len() / 2]));
                t.kb = Some(api::sign_kb(halg, 0, &p, Some("kb+jwt")));
            }
            "kb-nonce-other" | "kb-aud-other" | "kb-sd_hash-absent" => {
                let mut p = kb_payload(&t);
                match class {
                    "kb-nonce-other" => p["nonce"] = json!(format!("{nonce}-other")),
                    "kb-aud-other" => p["aud"] = json!(format!("{aud}-other")),
                    _ => {
                        p.as_object_mut().map(|o| o.remove("sd_hash"));
                    }
                }
                t.kb = Some(api::sign_kb(halg, 0, &p, Some("kb+jwt")));
            }
            "jwt-extra-segment" => {
                // surplus segments behind the signature / in front of the header
                let tail = *r.pick(&[".", ".A", ".e30", "..", ".AAAA.BBBB", ".junk"]);
                if r.chance(80) {
                    t.jwt.push_str(tail);
                } else {
                    t.jwt = format!("{}{}", &tail[1..], format!(".{}", t.jwt));
                }
            }
            "part-edge-char" => {
                // one blank / control / invisible / padding character at the very start or end of a part
                let c = *r.pick(&[" ", "\t", "\n", "\r", "\r\n", "\u{a0}", "\u{feff}", "=", "\u{0}", "\u{200b}", "%20", "+"]);
                let at_end = r.chance(50);
                let edit = |s: &str| if at_end { format!("{s}{c}") } else { format!("{c}{s}") };
                match r.below(3) {
                    0 => t.jwt = edit(&t.jwt),
                    1 if !t.disclosures.is_empty() => {
                        let i = r.usize(t.disclosures.len());
                        t.disclosures[i] = edit(&t.disclosures[i]);
                    }
                    _ => match &t.kb {
                        Some(k) => t.kb = Some(edit(k)),
                        None => t.jwt = edit(&t.jwt),
                    },
                }
            }
            "kb-claim-type-confusion" => {
                let mut p = kb_payload(&t);
                let field = *r.pick(&["nonce", "aud"]);
                let want = if field == "nonce" { &nonce } else { &aud };
                match serde_json::from_str::<Value>(want) {
                    Ok(v) if !v.is_string() => p[field] = v,
                    _ => {
                        p.as_object_mut().map(|o| o.remove(field));
                    }
                }
                t.kb = Some(api::sign_kb(halg, 0, &p, Some("kb+jwt")));
            }
            "resigned-header-typ" | "resigned-header-extra" => {
                // validly re-signed with another protected header (typ values of neighbouring token
                // kinds, replicated claims, crit / cty / kid): both forms carry the same header
                if let Ok(pl) = t.payload() {
                    let mut hdr = json!({"alg": cfg.alg.name()});
                    if class == "resigned-header-typ" {
                        hdr["typ"] = json!(*r.pick(&["kb+jwt", "at+jwt", "", "JWT", "jwt", "sd+jwt", "vc+sd-jwt", "dc+sd-jwt", "application/sd+jwt", "x", "SD+JWT", "jose", "jose+json"]));
                    } else {
                        match r.below(5) {
                            0 => hdr["cty"] = json!("JWT"),
                            1 => hdr["kid"] = json!("a.b~c"),
                            2 => hdr["iss"] = json!("https://issuer.example/B"),
                            3 => hdr["b64"] = json!(true),
                            _ => hdr["x5t"] = json!("AAAA"),
                        }
                    }
                    t.jwt = api::sign_raw(&hdr, &pl, cfg.alg.jwt(), &crate::keys::issuer_enc(cfg.alg, 0));
                    if t.kb.is_some() {
                        t.kb = Some(api::sign_kb(halg, 0, &kb_payload(&t), Some("kb+jwt")));
                    }
                }
            }
            "resigned-exp-within-leeway" => {
                // exp a few seconds in the past / nbf a few seconds ahead: whatever tolerance the verifier
                // applies, it applies to both forms
                if let Ok(mut pl) = t.payload() {
                    let now = api::now();
                    if r.chance(70) {
                        pl["exp"] = json!(now - *r.pick(&[1u64, 5, 20, 45, 58]));
                    } else {
                        pl["nbf"] = json!(now + *r.pick(&[1u64, 5, 20, 45, 58]));
                    }
                    t.jwt = api::sign_payload(cfg.alg, 0, &pl, None);
                    if t.kb.is_some() {
                        t.kb = Some(api::sign_kb(halg, 0, &kb_payload(&t), Some("kb+jwt")));
                    }
                }
            }
            "disc-invalid-utf8" => {
                // one byte inside a string of a disclosure overwritten with an octet that is not UTF-8
                if !t.disclosures.is_empty() {
                    let i = r.usize(t.disclosures.len());
                    if let Ok(mut bytes) = model::b64d(&t.disclosures[i]) {
                        if let Some(q) = bytes.iter().position(|b| *b == b'"') {
                            if q + 1 < bytes.len() {
                                bytes[q + 1] = *r.pick(&[0xFFu8, 0xC3, 0x80, 0xFE]);
                                t.disclosures[i] = b64e(&bytes);
                            }
                        }
                    }
                }
            }
            "kb-on-unbound" => t.kb = Some(api::sign_kb(halg, 0, &kb_payload(&t), Some("kb+jwt"))),
            "kb-garbage" => t.kb = Some((*r.pick(&["a.b.c", "null", "e30.e30.AAAA", "x"])).to_string()),
            "kb-is-a-disclosure" => {
                // the KB position holds a genuine disclosure that is not among the presented ones
                if let Some(x) = issued.parts.disclosures.iter().find(|d| !t.disclosures.contains(d)) {
                    t.kb = Some(x.clone());
                } else if let Some(x) = t.disclosures.pop() {
                    t.kb = Some(x);
                }
            }
            "kb-is-a-forged-disclosure" => t.kb = Some(b64e(json!(["s", "iss", "EVIL"]).to_string().as_bytes())),
            "resigned-no-exp" | "resigned-expired" | "resigned-nbf-future" | "resigned-exp-non-numeric" => {
                // validly re-signed payload with a temporal fault (signing oracle); KB-JWT re-made
                if let Ok(mut pl) = t.payload() {
                    let now = api::now();
                    match class {
                        "resigned-no-exp" => {
                            pl.as_object_mut().map(|o| o.remove("exp"));
                        }
                        "resigned-expired" => pl["exp"] = json!(now - 3600 - r.below(100_000)),
                        "resigned-nbf-future" => pl["nbf"] = json!(now + 3600 + r.below(100_000)),
                        _ => pl["exp"] = r.pick(&[json!("2100-01-01"), json!(null), json!(true), json!(-5)]).clone(),
                    }
                    t.jwt = api::sign_payload(cfg.alg, 0, &pl, None);
                    if t.kb.is_some() {
                        t.kb = Some(api::sign_kb(halg, 0, &kb_payload(&t), Some("kb+jwt")));
                    }
                }
            }
            _ => {}
        }
        l.count(&format!("class.{class}"));
        if !t.compact_representable() || t.jwt.split('.').count() < 3 {
            l.count("excluded.not-expressible-in-both-grammars");
            continue;
        }
        for kbreq in [false, true] {
            let variant = r.next();
            let c = t.to_compact();
            let j = match t.to_json(variant) {
                Some(j) => j,
                None => continue,
            };
            let mut j = j;
            if class == "honest" && r.chance(50) {
                // a withheld disclosure placed in a JWS-family / unknown member of the JSON form is
                // not part of the triple: the compact form (which cannot carry it) decides
                if let (Some(extra), Ok(Value::Object(mut doc))) = (issued.parts.disclosures.iter().find(|d| !t.disclosures.contains(d)), serde_json::from_str::<Value>(&j)) {
                    let (mname, mval) = match r.below(4) {
                        0 => ("header", json!({"disclosures": [extra]})),
                        1 => ("unprotected", json!({"disclosures": [extra]})),
                        2 => ("more_disclosures", json!([extra])),
                        _ => ("header", json!({"disclosures": [extra], "kb_jwt": t.kb})),
                    };
                    doc.insert(mname.to_string(), mval);
                    j = Value::Object(doc).to_string();
                    l.count("json.withheld-disclosure-in-unknown-member");
                }
            }
            // a HOLDER built from either form of the same well-formed triple is built (or refused) alike
            if !kbreq && ["honest", "kb-on-unbound", "kb-removed", "disc-removed", "disc-reordered", "kb-other-key", "kb-nonce-other"].contains(&class) {
                let (ha, hb) = (api::holder_new(&c, Fmt::Compact).map(|_| ()), api::holder_new(&j, Fmt::Json).map(|_| ()));
                l.evals += 1;
                if ha.class() == hb.class() {
                    l.count("holder.same-construction-outcome");
                } else {
                    l.violate(Violation {
                        subcheck: "holder-selection-differs-between-formats".into(),
                        class: format!("holder construction from a {class} triple"),
                        observed: format!("Compact={} JSON={}", ha.class(), hb.class()),
                        case,
                        detail: json!({"credential": desc, "class": class, "compact": c, "json": j}),
                    });
                }
            }
            let pair = if kbreq { Some((aud.as_str(), nonce.as_str())) } else { None };
            let a = api::verify(&c, &res, pair, Fmt::Compact).out;
            let b = api::verify(&j, &res, pair, Fmt::Json).out;
            l.evals += 1;
            l.distinct(crate::rng::mix(case ^ crate::gen::hash_str(class) ^ ((kbreq as u64) << 50) ^ ((variant % 32) << 52)));
            let same = match (&a, &b) {
                (Outcome::Ok(x), Outcome::Ok(y)) => x == y,
                (Outcome::Err(_), Outcome::Err(_)) => true,
                _ => false,
            };
            let detail = || json!({"credential": desc, "class": class, "kb_requested": kbreq, "compact": c, "json": j, "compact_result": a.describe().chars().take(300).collect::<String>(), "json_result": b.describe().chars().take(300).collect::<String>()});
            if a.is_panic() || b.is_panic() {
                let p = if a.is_panic() { &a } else { &b };
                l.violate(Violation { subcheck: "panic".into(), class: class.into(), observed: p.panic_signature().unwrap(), case, detail: detail() });
            } else if !same {
                l.violate(Violation {
                    subcheck: "formats-diverge".into(),
                    class: format!("{class} kb_requested={kbreq}"),
                    observed: format!("Compact={} JSON={}", a.class(), b.class()),
                    case,
                    detail: detail(),
                });
            } else if a.is_ok() {
                l.count("pair.same-accept");
            } else {
                l.count("pair.same-reject");
            }
            // the JSON form is a JSON document: spelled with other white space / escapes (same
            // members, same strings) it is still the same serialization of the same triple
            if r.chance(25) {
                if let Ok(doc) = serde_json::from_str::<Value>(&j) {
                    let mode = 1 + r.below(5);
                    let mut j2 = model::respell(&doc, mode);
                    if r.chance(30) {
                        j2 = format!("{}{}{}", r.pick(&["", " ", "\n", "\t\r\n"]), j2, r.pick(&["", " ", "\n", "\r\n  "]));
                    }
                    if serde_json::from_str::<Value>(&j2).ok().as_ref() == Some(&doc) && j2 != j {
                        let b2 = api::verify(&j2, &res, pair, Fmt::Json).out;
                        l.evals += 1;
                        let same2 = match (&b, &b2) {
                            (Outcome::Ok(x), Outcome::Ok(y)) => x == y,
                            (Outcome::Err(_), Outcome::Err(_)) => true,
                            _ => false,
                        };
                        if b2.is_panic() {
                            l.violate(Violation { subcheck: "panic".into(), class: format!("{class} (respelled JSON)"), observed: b2.panic_signature().unwrap(), case, detail: json!({"credential": desc, "json": j2}) });
                        } else if !same2 {
                            l.violate(Violation {
                                subcheck: "formats-diverge".into(),
                                class: format!("{class}: JSON form respelled (mode {mode})"),
                                observed: format!("canonical JSON={} respelled JSON={}", b.class(), b2.class()),
                                case,
                                detail: json!({"credential": desc, "class": class, "kb_requested": kbreq, "json": j, "json_respelled": j2}),
                            });
                        } else {
                            l.count("pair.json-respelled.same");
                        }
                    }
                }
            }
        }
    }
    let _ = Value::Null;
}
