//! C16 — the deterministic-salt build is reproducible and preserves claim values.
//! Only in the `--features mock` build (forwards to sd-jwt-rs/mock_salts). `SALTS` is process
//! wide, so each process runs its cases on one thread; the parent shards over 16 processes.

use crate::api::{self, Outcome, Resolver};
use crate::evidence::{run_cases, run_sharded, Ctx, Local, Report, Violation};
use crate::gen::{self, Profile};
use crate::keys::{self, Alg};
use crate::model::{self, b64e, Fmt};
use crate::mon::c05::check_issued;
use crate::pipeline::{self, Config, Scenario};
use crate::rng::Rng;
use serde_json::{json, Value};

const STREAM: u64 = 16;

pub fn run(ctx: &Ctx) -> Report {
    let n = ctx.cases(60_000, 4_000_000);
    let mut inconclusive = vec![];
    let local = if ctx.shard.is_some() || ctx.only_case.is_some() {
        let mut c = ctx.clone();
        c.threads = 1;
        run_cases(&c, n, |case, l| one_case(ctx, case, l))
    } else {
        let (l, ends) = run_sharded(ctx, 16, 1, None, &[], "mock");
        for e in ends {
            if !e.ok {
                inconclusive.push(format!("shard {} ended abnormally (code {:?}, signal {:?}): {}", e.shard, e.code, e.signal, e.stderr_tail.chars().take(300).collect::<String>()));
            }
        }
        l
    };
    let mut rep = Report::new(
        "exploration",
        "mock_salts build. case i: configuration as C01 with the metachar-strings profile over-weighted (strings with , : [ \" \\ runs of \
         spaces, JSON look-alikes); SALTS pre-filled with (#SD paths + 0..5) unique salts; issue; check salt i == i-th queued salt, queue \
         shrank by exactly the number of disclosures, structure (C05 locator), round trip through holder + verifier equals the model \
         (C01 oracle), and a second issuance with the same salts is byte-identical (whole string under HS256/EdDSA, disclosures + \
         payload under ES256; not asserted when decoys are on). evaluations = issuances. Distinct = (claims shape, SD positions, \
         configuration); non-trivial = >= 1 disclosure.",
        local,
    );
    rep.inconclusive = inconclusive;
    rep.assumptions = vec!["decoy digests stay random in this mode (excluded from the byte-identity clause, as the property states)".into()];
    rep.floor("salts.in-order", 1000);
    rep.floor("reissue.byte-identical", 300);
    rep.floor("roundtrip.equal-to-model", 1000);
    rep.floor("strings.with-separator-chars", 1000);
    rep
}

fn fill_salts(salts: &[String]) {
    sd_jwt_rs::utils::SALTS.clear_poison();
    let mut q = sd_jwt_rs::utils::SALTS.lock().unwrap_or_else(|e| e.into_inner());
    q.clear();
    for s in salts {
        q.push_back(s.clone());
    }
}
fn salts_left() -> usize {
    sd_jwt_rs::utils::SALTS.lock().unwrap_or_else(|e| e.into_inner()).len()
}

fn count_separator_strings(v: &Value) -> u64 {
    match v {
        Value::String(s) => (s.contains(',') || s.contains(':') || s.contains('[') || s.contains('"') || s.contains("  ")) as u64,
        Value::Array(a) => a.iter().map(count_separator_strings).sum(),
        Value::Object(m) => m.iter().map(|(k, c)| count_separator_strings(&Value::String(k.clone())) + count_separator_strings(c)).sum(),
        _ => 0,
    }
}

/// An adversarially chosen salt queue ("forall salt queues"): eight flat claims and eight salts
/// such that the digests of two of the disclosures agree in their first six characters. Found
/// once per process by issuing with counter salts until two different claims collide (birthday
/// search, ~2^18 digests); None if the search does not succeed.
fn colliding_queue() -> Option<&'static (Value, Vec<String>)> {
    static Q: std::sync::OnceLock<Option<(Value, Vec<String>)>> = std::sync::OnceLock::new();
    Q.get_or_init(|| {
        let claims = json!({"iss": "https://issuer.example/A", "exp": 4_000_000_000u64, "n0": 0, "n1": "one", "n2": [2], "n3": {"k": 3}, "n4": null, "n5": true, "n6": 6.5, "n7": ""});
        let strat = gen::gen_strategy(&mut Rng(1), &claims, gen::StratKind::TopLevel);
        let mut seen: std::collections::HashMap<String, (usize, String)> = Default::default();
        for i in 0..60_000u64 {
            let salts: Vec<String> = (0..8).map(|k| format!("c{i}x{k}")).collect();
            fill_salts(&salts);
            let mut issuer = api::new_issuer(Alg::HS256, 0, true);
            let out = api::issue(&mut issuer, &claims, &strat, None, false, Fmt::Compact);
            fill_salts(&[]);
            let parts = match out {
                Outcome::Ok(t) => crate::model::Parts::parse(Fmt::Compact, &t).ok()?,
                _ => return None,
            };
            if parts.disclosures.len() != 8 {
                return None;
            }
            for (k, d) in parts.disclosures.iter().enumerate() {
                let key = model::digest_of(d)[..6].to_string();
                if let Some((k2, s2)) = seen.get(&key) {
                    if *k2 != k {
                        let mut q: Vec<String> = (0..8).map(|m| format!("other{m}")).collect();
                        q[k] = salts[k].clone();
                        q[*k2] = s2.clone();
                        return Some((claims, q));
                    }
                }
                seen.insert(key, (k, salts[k].clone()));
            }
        }
        None
    })
    .as_ref()
}

fn one_case(ctx: &Ctx, case: u64, l: &mut Local) {
    let mut r = Rng::for_case(ctx.seed, STREAM, case);
    if case % 4096 == 7 {
        // the adversarial queue: digests that share a six-character prefix are still different digests
        if let Some((claims, salts)) = colliding_queue() {
            let strat = gen::gen_strategy(&mut Rng(1), claims, gen::StratKind::TopLevel);
            for fmt in [Fmt::Compact, Fmt::Json] {
                fill_salts(salts);
                let mut issuer = api::new_issuer(Alg::HS256, 0, true);
                let out = api::issue(&mut issuer, claims, &strat, None, false, fmt);
                fill_salts(&[]);
                let got = match out {
                    Outcome::Ok(sd) => match api::holder_new(&sd, fmt) {
                        Outcome::Ok(mut h) => match api::present(&mut h, &gen::select_all(claims), None) {
                            Outcome::Ok(p) => api::verify(&p, &Resolver::Fixed(Alg::HS256, 0), None, fmt).out,
                            o => o.map(|_| Value::Null),
                        },
                        o => o.map(|_| Value::Null),
                    },
                    o => o.map(|_| Value::Null),
                };
                l.evals += 1;
                match got {
                    Outcome::Ok(v) if v == *claims => l.count("roundtrip.colliding-prefix-queue.equal-to-model"),
                    other => l.violate(Violation {
                        subcheck: "roundtrip-fails".into(),
                        class: "salt queue chosen so that two digests share a six-character prefix".into(),
                        observed: other.panic_signature().unwrap_or_else(|| other.describe()).chars().take(200).collect(),
                        case,
                        detail: json!({"claims": claims, "salts": salts, "format": fmt.name()}),
                    }),
                }
            }
        } else {
            l.count("colliding-prefix-queue.not-found");
        }
    }
    if case % 16 == 5 {
        // history on ONE queue: an issuance that fails at the signing step (unknown algorithm name),
        // then a successful one — the second still takes queued salts in queue order
        let cfg2 = Config::from_index(case / 16);
        let s2 = pipeline::gen_scenario(ctx, &mut r, cfg2.clone());
        let n = s2.strat.sd.len();
        if n >= 2 && n <= 400 {
            let salts: Vec<String> = (0..2 * n + 3).map(|k| format!("hq{case}x{k}")).collect();
            fill_salts(&salts);
            let mut good = api::new_issuer(cfg2.alg, 0, true);
            let first = if (case / 16) % 2 == 0 {
                let mut bad = sd_jwt_rs::SDJWTIssuer::new(keys::issuer_enc(cfg2.alg, 0), Some((*r.pick(&["NOPE256", "", "RS256"])).to_string()));
                api::issue(&mut bad, &s2.u, &s2.strat, cfg2.holder, false, cfg2.fmt)
            } else {
                // ... or one that is refused for a reserved member name in the MIDDLE of the claims (half of the
                // disclosable members come before it in document order), on the instance that is used again
                let mut m = serde_json::Map::new();
                let members: Vec<(String, Value)> = s2.u.as_object().map(|o| o.iter().map(|(k, v)| (k.clone(), v.clone())).collect()).unwrap_or_default();
                for (i, (k, v)) in members.iter().enumerate() {
                    if i == members.len() / 2 {
                        m.insert("mid#c16bad;".into(), json!({"a": 1, "b": [1, {"_sd": ["x"]}], "...": 2}));
                    }
                    m.insert(k.clone(), v.clone());
                }
                l.count("failed-issuance.reserved-name-in-the-middle");
                api::issue(&mut good, &Value::Object(m), &s2.strat, cfg2.holder, false, cfg2.fmt)
            };
            let second = pipeline::issue_with(&mut good, &s2.u, &s2.strat, cfg2.holder, false, cfg2.fmt);
            fill_salts(&[]);
            l.evals += 2;
            if let (false, Ok(iss2)) = (first.is_ok(), second) {
                let got: Vec<String> = iss2.parts.disclosures.iter().filter_map(|d| iss2.by.get(&model::digest_of(d)).and_then(|dd| dd.json.get(0).and_then(Value::as_str).map(String::from))).collect();
                let run_at = |k: usize| got.len() == n && salts.get(k..k + n).map(|w| w == got.as_slice()).unwrap_or(false);
                if run_at(0) || run_at(n) {
                    l.count("salts.in-order.after-a-failed-issuance");
                } else {
                    l.violate(Violation {
                        subcheck: "salt-order".into(),
                        class: if (case / 16) % 2 == 0 { "issuance after an issuance that failed at the signing step".into() } else { "issuance after one that was refused for a reserved member name".to_string() },
                        observed: "the disclosures do not carry a contiguous run of the queue in queue order".into(),
                        case,
                        detail: json!({"config": cfg2.describe(), "queue_head": salts.iter().take(2 * n.min(6)).collect::<Vec<_>>(), "salts_used": got.iter().take(12).collect::<Vec<_>>(), "disclosures": n}),
                    });
                }
            }
        }
    }
    let mut cfg = Config::from_index(case);
    if r.chance(50) {
        cfg.profile = Profile::MetacharStrings;
    }
    let s = pipeline::gen_scenario(ctx, &mut r, cfg.clone());
    let class = cfg.profile.name();
    let n_sd = s.strat.sd.len();
    let extra = r.usize(6);
    // the property quantifies over ALL salt queues that are long enough: mostly unique salts, but
    // also constant queues and queues drawn from two values (identical disclosures may then arise;
    // for those queues only count / order / reproducibility are asserted, not the round trip)
    let queue_kind = match r.below(12) {
        0 => "constant",
        1 => "two-valued",
        2 => "with-blank-entries",
        _ => "unique",
    };
    // unique queues sometimes hold salts whose TEXT is a JSON literal (12345, true, null, [1], 1e5):
    // a salt is a string whatever it looks like
    let literal_salts = queue_kind == "unique" && r.chance(15);
    let mut used_literals: std::collections::HashSet<String> = Default::default();
    let pool: Vec<String> = (0..2)
        .map(|_| {
            let mut b = [0u8; 16];
            for x in b.iter_mut() {
                *x = r.below(256) as u8;
            }
            b64e(&b)
        })
        .collect();
    let salts: Vec<String> = (0..n_sd + extra)
        .map(|_| match queue_kind {
            "constant" => pool[0].clone(),
            "two-valued" => r.pick(&pool).clone(),
            "with-blank-entries" if r.chance(30) => (*r.pick(&["", " ", "  "])).to_string(),
            _ if literal_salts && r.chance(50) && used_literals.len() < 40 => {
                let n = used_literals.len() as u64;
                let cand = match r.below(13) {
                    // templating placeholders: a salt is data, never a pattern
                    // padded base64 text: the '=' signs belong to the salt
                    9 if r.chance(50) => format!("bGFwaW4{n}ZGUgZ2FyZW5uZQ=="),
                    10 if r.chance(50) => format!("{n}="),
                    9 => format!("{{value}}{n}"),
                    10 => format!("{{name}}{n}"),
                    11 => format!("{n}{{salt}}{{}}"),
                    12 => format!("%s$1{n}"),
                    0 => format!("{}", 12345 + n),
                    1 => format!("-{}", 7 + n),
                    2 => format!("{}e5", n + 1),
                    3 => format!("[{n}]"),
                    4 => "true".to_string(),
                    5 => "null".to_string(),
                    6 => "false".to_string(),
                    7 => "{}".to_string(),
                    _ => format!("{n}.5"),
                };
                if used_literals.insert(cand.clone()) {
                    cand
                } else {
                    let c2 = format!("{}", 900_000 + n);
                    used_literals.insert(c2.clone());
                    c2
                }
            }
            _ => {
                let mut b = [0u8; 16];
                for x in b.iter_mut() {
                    *x = r.below(256) as u8;
                }
                b64e(&b)
            }
        })
        .collect();
    l.count(&format!("queue.{queue_kind}"));
    if literal_salts {
        l.count("queue.with-json-literal-salts");
    }
    let input = || json!({"config": cfg.describe(), "claims": s.u, "strategy": s.strat.describe(), "salts": salts.len()});
    l.sample(case, input);
    l.evals += 1;
    l.add("strings.with-separator-chars", count_separator_strings(&s.u));
    if n_sd > 0 {
        let all = gen::all_paths(&s.u);
        let mut h = 0u64;
        for (i, p) in all.iter().enumerate() {
            if s.strat.sd.contains(p) {
                h = crate::rng::mix(h ^ (i as u64 + 1));
            }
        }
        l.distinct(crate::rng::mix(gen::shape_fingerprint(&s.u) ^ h.rotate_left(17) ^ cfg.bits()));
    }
    if queue_kind != "unique" {
        // identical disclosures (same salt, same name, same value) are possible here, so only the
        // clauses about the queue itself and reproducibility are asserted, on the raw strings
        let last_text = std::cell::RefCell::new(String::new());
        let run_once = |l: &mut Local| -> Option<(crate::model::Parts, usize)> {
            fill_salts(&salts);
            let mut issuer = api::new_issuer(cfg.alg, 0, s.explicit_alg);
            let out = api::issue(&mut issuer, &s.u, &s.strat, cfg.holder, cfg.decoys, cfg.fmt);
            let left = salts_left();
            fill_salts(&[]);
            l.evals += 1;
            match out {
                Outcome::Ok(text) => {
                    *last_text.borrow_mut() = text.clone();
                    crate::model::Parts::parse(cfg.fmt, &text).ok().map(|p| (p, salts.len() - left))
                }
                other => {
                    l.violate(Violation { subcheck: "issue".into(), class: format!("{queue_kind} salt queue"), observed: other.panic_signature().unwrap_or_else(|| other.describe()), case, detail: json!({"input": input(), "queue": queue_kind}) });
                    None
                }
            }
        };
        let a = match run_once(l) {
            Some(x) => x,
            None => return,
        };
        let (parts, used) = &a;
        if *used != parts.disclosures.len() || parts.disclosures.len() != n_sd {
            l.violate(Violation {
                subcheck: "salt-count".into(),
                class: format!("{queue_kind} salt queue"),
                observed: format!("{used} salts consumed, {} disclosures issued, {n_sd} claims designated", parts.disclosures.len()),
                case,
                detail: json!({"input": input(), "queue": queue_kind}),
            });
            return;
        }
        for (i, d) in parts.disclosures.iter().enumerate() {
            let first = model::b64d(d).ok().and_then(|b| serde_json::from_slice::<Value>(&b).ok()).and_then(|v| v.get(0).cloned());
            if first != Some(json!(salts[i])) {
                l.violate(Violation { subcheck: "salt-order".into(), class: format!("{queue_kind} salt queue"), observed: format!("disclosure {i} does not carry queued salt {i}"), case, detail: json!({"input": input()}) });
                return;
            }
        }
        if !parts.disclosures.is_empty() {
            l.count("salts.in-order");
        }
        // repeated salts are no reason to lose claims: as long as the disclosure STRINGS differ
        // (their digests then differ too), holder and verifier recover the original claims
        let distinct: std::collections::HashSet<&String> = parts.disclosures.iter().collect();
        if distinct.len() == parts.disclosures.len() && !parts.disclosures.is_empty() {
            let sel = gen::select_all(&s.u);
            let jwk = cfg.holder.map(|(a, i)| keys::holder_jwk_json_canonical(a, i));
            let exp = model::with_cnf(s.u.clone(), jwk.as_ref());
            let text = last_text.borrow().clone();
            let got = match api::holder_new(&text, cfg.fmt) {
                Outcome::Ok(mut h) => match api::present(&mut h, &sel, None) {
                    Outcome::Ok(p) => api::verify(&p, &Resolver::Fixed(cfg.alg, 0), None, cfg.fmt).out,
                    o => o.map(|_| Value::Null),
                },
                o => o.map(|_| Value::Null),
            };
            l.evals += 1;
            match got {
                Outcome::Ok(v) if v == exp => l.count("roundtrip.repeated-salts.equal-to-model"),
                Outcome::Ok(v) => {
                    let (at, e, g, _) = model::first_diff(&exp, &v).unwrap_or_default();
                    l.violate(Violation { subcheck: "value-changed-by-spacing".into(), class: format!("{queue_kind} salt queue"), observed: "verified claims differ from the original claims".into(), case, detail: json!({"input": input(), "at": at, "expected": e, "got": g}) });
                }
                o => l.violate(Violation { subcheck: "roundtrip-fails".into(), class: format!("{queue_kind} salt queue"), observed: o.panic_signature().unwrap_or_else(|| o.describe()), case, detail: json!({"input": input(), "queue": queue_kind, "history": api::history()}) }),
            }
        }
        if !cfg.decoys {
            if let Some((p2, _)) = run_once(l) {
                let seg = |p: &crate::model::Parts| p.jwt.split('.').nth(1).unwrap_or("").to_string();
                if p2.disclosures == parts.disclosures && seg(&p2) == seg(parts) {
                    l.count("reissue.byte-identical");
                } else {
                    l.violate(Violation { subcheck: "not-reproducible".into(), class: format!("{queue_kind} salt queue"), observed: "same claims/strategy/salts gave different disclosures or payload".into(), case, detail: json!({"input": input()}) });
                }
            }
        }
        return;
    }
    fill_salts(&salts);
    let issued = match pipeline::issue_scenario(&s) {
        Ok(i) => i,
        Err(f) => {
            fill_salts(&[]);
            l.violate(Violation { subcheck: "issue".into(), class: class.into(), observed: format!("{f:?}").chars().take(200).collect(), case, detail: json!({"input": input(), "history": api::history()}) });
            return;
        }
    };
    let left = salts_left();
    let used = salts.len() - left;
    let discs = &issued.parts.disclosures;
    if used != discs.len() || discs.len() != n_sd {
        l.violate(Violation {
            subcheck: "salt-count".into(),
            class: class.into(),
            observed: format!("{used} salts consumed, {} disclosures issued, {n_sd} claims designated", discs.len()),
            case,
            detail: json!({"input": input()}),
        });
    }
    let mut in_order = true;
    for (i, d) in discs.iter().enumerate() {
        let first = issued.by.get(&model::digest_of(d)).and_then(|dd| dd.json.get(0).cloned()).unwrap_or(Value::Null);
        if Some(&first) != salts.get(i).map(|s| json!(s)).as_ref() {
            in_order = false;
            l.violate(Violation {
                subcheck: "salt-order".into(),
                class: class.into(),
                observed: format!("disclosure {i} does not carry queued salt {i}"),
                case,
                detail: json!({"input": input(), "disclosure": issued.by.get(&model::digest_of(d)).map(|x| x.text.clone()), "expected_salt": salts.get(i)}),
            });
            break;
        }
    }
    if in_order && !discs.is_empty() {
        l.count("salts.in-order");
    }
    // "in order" is the order of the claims in the DOCUMENT (what any two implementations fed the
    // same salts can agree on): the k-th salt / k-th issued disclosure belongs to the k-th hidden
    // claim of a depth-first walk in member order, the claims inside a hidden value before the
    // hidden claim itself
    if issued.loc.complaints.is_empty() && discs.len() == n_sd {
        fn walk(v: &Value, p: &mut gen::Path, sd: &std::collections::BTreeSet<gen::Path>, out: &mut Vec<gen::Path>) {
            match v {
                Value::Object(m) => {
                    for (k, c) in m {
                        p.push(gen::Step::K(k.clone()));
                        walk(c, p, sd, out);
                        if sd.contains(p) {
                            out.push(p.clone());
                        }
                        p.pop();
                    }
                }
                Value::Array(a) => {
                    for (i, c) in a.iter().enumerate() {
                        p.push(gen::Step::I(i));
                        walk(c, p, sd, out);
                        if sd.contains(p) {
                            out.push(p.clone());
                        }
                        p.pop();
                    }
                }
                _ => {}
            }
        }
        let mut expected: Vec<gen::Path> = vec![];
        walk(&s.u, &mut vec![], &s.strat.sd, &mut expected);
        let got: Vec<Option<&gen::Path>> = discs.iter().map(|d| issued.loc.map.iter().find(|(_, x)| *x == d).map(|(p, _)| p)).collect();
        let same = expected.len() == got.len() && expected.iter().zip(got.iter()).all(|(e, g)| *g == Some(e));
        if same {
            l.count("salts.assigned-in-document-order");
        } else if discs.iter().collect::<std::collections::HashSet<_>>().len() == discs.len() {
            let first_bad = expected.iter().zip(got.iter()).position(|(e, g)| *g != Some(e)).unwrap_or(0);
            l.violate(Violation {
                subcheck: "salt-order".into(),
                class: format!("{class}: document order"),
                observed: format!("queued salt {first_bad} went to another claim than the {first_bad}-th hidden claim in document order"),
                case,
                detail: json!({"input": input(), "expected_claim": expected.get(first_bad).map(gen::path_str), "got_claim": got.get(first_bad).and_then(|g| g.map(gen::path_str))}),
            });
        }
    }
    // structure + values (C05 locator) and the C01 oracle through holder + verifier
    let bad = check_issued(case, &s, &issued, l, &input);
    if bad == 0 {
        let sel = pipeline::random_selection(&mut r, &s.u);
        let jwk = cfg.holder.map(|(a, i)| keys::holder_jwk_json_canonical(a, i));
        let (exp, _) = model::view(&s.u, &sel, &s.strat.sd);
        let exp = model::with_cnf(exp, jwk.as_ref());
        let got = match api::holder_new(&issued.sd_jwt, cfg.fmt) {
            Outcome::Ok(mut h) => match api::present(&mut h, &sel, None) {
                Outcome::Ok(p) => api::verify(&p, &Resolver::Fixed(cfg.alg, 0), None, cfg.fmt).out,
                o => o.map(|_| Value::Null),
            },
            o => o.map(|_| Value::Null),
        };
        match got {
            Outcome::Ok(v) if v == exp => l.count("roundtrip.equal-to-model"),
            Outcome::Ok(v) => {
                let (at, e, g, _) = model::first_diff(&exp, &v).unwrap_or_default();
                l.violate(Violation { subcheck: "value-changed-by-spacing".into(), class: class.into(), observed: "verified claims differ from the model in the mock_salts build".into(), case, detail: json!({"input": input(), "selection": sel, "at": at, "expected": e, "got": g}) });
            }
            o => l.violate(Violation { subcheck: "roundtrip-fails".into(), class: class.into(), observed: o.panic_signature().unwrap_or_else(|| o.describe()), case, detail: json!({"input": input(), "history": api::history()}) }),
        }
        // deterministic salts make this constructible: the SAME claims and salts again, except that the (always
        // visible, never disclosed) `iss` now holds the text of one disclosure's digest — a claim value that
        // happens to equal a digest is data, and the round trip is the same
        if case % 8 == 3 && !issued.parts.disclosures.is_empty() && cfg.fmt == crate::model::Fmt::Compact || case % 16 == 11 && !issued.parts.disclosures.is_empty() {
            let dg = model::digest_of(&issued.parts.disclosures[r.usize(issued.parts.disclosures.len())]);
            let mut u2 = s.u.clone();
            u2["iss"] = json!(dg);
            fill_salts(&salts);
            let mut issuer = api::new_issuer(cfg.alg, 0, s.explicit_alg);
            let out = api::issue(&mut issuer, &u2, &s.strat, cfg.holder, cfg.decoys, cfg.fmt);
            fill_salts(&[]);
            l.evals += 1;
            let all = gen::select_all(&u2);
            let back = match out {
                Outcome::Ok(sd) => match api::holder_new(&sd, cfg.fmt) {
                    Outcome::Ok(mut h) => match api::present(&mut h, &all, None) {
                        Outcome::Ok(p) => api::verify(&p, &Resolver::Fixed(cfg.alg, 0), None, cfg.fmt).out,
                        o => o.map(|_| Value::Null),
                    },
                    o => o.map(|_| Value::Null),
                },
                o => o.map(|_| Value::Null),
            };
            match back {
                Outcome::Ok(v) if v == model::with_cnf(u2.clone(), jwk.as_ref()) => l.count("roundtrip.value-equal-to-a-digest"),
                Outcome::Ok(v) => l.violate(Violation { subcheck: "value-changed-by-spacing".into(), class: "a claim value equal to the digest of a disclosure".into(), observed: "verified claims differ from the claims given".into(), case, detail: json!({"input": input(), "iss": dg, "got": v}) }),
                o => l.violate(Violation { subcheck: "roundtrip-fails".into(), class: "a claim value equal to the digest of a disclosure".into(), observed: o.panic_signature().unwrap_or_else(|| o.describe()), case, detail: json!({"input": input(), "iss": dg, "history": api::history()}) }),
            }
        }
    }
    // reproducibility
    fill_salts(&salts);
    let again = pipeline::issue_scenario(&s);
    fill_salts(&[]);
    l.evals += 1;
    match again {
        Err(f) => l.violate(Violation { subcheck: "reissue-fails".into(), class: class.into(), observed: format!("{f:?}").chars().take(200).collect(), case, detail: json!({"input": input()}) }),
        Ok(b) => {
            let payload_seg = |s: &str| s.split('.').nth(1).unwrap_or("").to_string();
            let same_d = b.parts.disclosures == issued.parts.disclosures;
            let same_p = payload_seg(&b.parts.jwt) == payload_seg(&issued.parts.jwt);
            let deterministic_sig = cfg.alg != Alg::ES256;
            if cfg.decoys {
                // decoy digests stay random in this mode and also sit inside disclosed objects:
                // the byte-identity clause is stated for decoys off only
                l.count("reissue.not-asserted.decoys-on");
                return;
            }
            let ok = if deterministic_sig {
                b.sd_jwt == issued.sd_jwt
            } else {
                same_d && same_p
            };
            if ok {
                l.count("reissue.byte-identical");
                l.count(if deterministic_sig { "reissue.compared.whole-string" } else { "reissue.compared.disclosures+payload" });
                // ... and "on every run" includes runs in which this thread issued something else in
                // between: the same claims with every object's members in reverse order (equal as JSON
                // values, different as text), then the original again
                fn reversed(v: &Value) -> Value {
                    match v {
                        Value::Object(m) => Value::Object(m.iter().rev().map(|(k, x)| (k.clone(), reversed(x))).collect()),
                        Value::Array(a) => Value::Array(a.iter().map(reversed).collect()),
                        x => x.clone(),
                    }
                }
                let mut other = Scenario { cfg: s.cfg.clone(), u: reversed(&s.u), strat: s.strat.clone(), explicit_alg: s.explicit_alg };
                other.cfg.decoys = false;
                fill_salts(&salts);
                let _ = pipeline::issue_scenario(&other);
                fill_salts(&salts);
                let third = pipeline::issue_scenario(&s);
                fill_salts(&[]);
                l.evals += 2;
                // and on ONE reused issuer instance: the same claims under another strategy first
                let third = match third {
                    Ok(c) if case % 2 == 0 => {
                        let other_kind = if s.cfg.strat.is_custom() { *r.pick(&[gen::StratKind::Custom10, gen::StratKind::Custom80, gen::StratKind::AllLevels]) } else { gen::StratKind::Custom40 };
                        let other_strat = gen::gen_strategy(&mut r, &s.u, other_kind);
                        let mut reused = api::new_issuer(s.cfg.alg, 0, s.explicit_alg);
                        fill_salts(&salts);
                        // (the first call binds another holder key than the second: none of it may stick)
                        let _ = pipeline::issue_with(&mut reused, &s.u, &other_strat, Some((Alg::ES256, 1)), true, s.cfg.fmt);
                        fill_salts(&salts);
                        let again = pipeline::issue_with(&mut reused, &s.u, &s.strat, s.cfg.holder, false, s.cfg.fmt);
                        fill_salts(&[]);
                        l.evals += 2;
                        l.count("reissue.on-a-reused-issuer-after-another-strategy");
                        again.or(Ok(c))
                    }
                    x => x,
                };
                if let Ok(c) = third {
                    let same = c.parts.disclosures == issued.parts.disclosures && payload_seg(&c.parts.jwt) == payload_seg(&issued.parts.jwt);
                    if same {
                        l.count("reissue.after-other-issuance.byte-identical");
                    } else {
                        l.violate(Violation {
                            subcheck: "not-reproducible".into(),
                            class: format!("{class}: after issuing the member-reversed claims in between"),
                            observed: "same claims/strategy/salts gave different disclosures or payload after another issuance on the same thread".into(),
                            case,
                            detail: json!({"input": input(), "first": issued.sd_jwt, "third": c.sd_jwt}),
                        });
                    }
                }
            } else {
                l.violate(Violation {
                    subcheck: "not-reproducible".into(),
                    class: class.into(),
                    observed: format!("same claims/strategy/salts gave different output (disclosures equal: {same_d}, payload equal: {same_p})"),
                    case,
                    detail: json!({"input": input(), "first": issued.sd_jwt, "second": b.sd_jwt}),
                });
            }
        }
    }
    let _ = Fmt::Json;
}
