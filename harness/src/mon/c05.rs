//! C05 — the issued payload hides exactly the claims the strategy designates.
//! Two independent detectors: (1) the locator re-derives the expected payload structure from
//! (U, SD(U,strategy)) and complains about every deviation; (2) a substring search on the raw
//! decoded texts checks that every unique tag occurs exactly once, in the one text that is
//! allowed to contain it (payload, or the disclosure of its nearest SD ancestor-or-self).

use crate::api::{self, Outcome};
use crate::evidence::{run_cases, Ctx, Local, Report, Violation};
use crate::gen::{self, StratKind};
use crate::model::{self, Fmt};
use crate::pipeline::{self, Config, IssueFail, Issued, Scenario};
use crate::rng::Rng;
use serde_json::{json, Value};

const STREAM: u64 = 5;

pub fn run(ctx: &Ctx) -> Report {
    let n = ctx.cases(150_000, 3_000_000);
    let local = run_cases(ctx, n, |case, l| one_case(ctx, case, l));
    let mut rep = Report::new(
        "exploration",
        "case i: configuration as C01 (profile=i%14, strategy=(i/14)%6, format/alg/decoys/holder=(i/84)%36); every 25th case \
         enumerates ALL subsets of the paths of a small tree as Custom strategies; every 10th case additionally probes malformed \
         and non-existent paths. Distinct = (claims shape, strategy kind, positions of SD paths, configuration bits); \
         non-trivial = at least one SD path.",
        local,
    );
    rep.assumptions = vec![
        "SD(U,strategy) is computed by the harness from the intended paths; Custom names are non-empty and free of '.' and '['".into(),
        "sha2/base64/serde_json are trusted as libraries".into(),
    ];
    rep.floor("issued", 100);
    rep.floor("hidden.members", 100);
    rep.floor("hidden.elements", 100);
    rep.floor("tags.checked", 1000);
    rep.floor("malformed-path.refused", 10);
    rep.floor("subset-enumeration.credentials", 10);
    rep
}

fn viol(case: u64, sub: &str, class: &str, observed: String, detail: Value) -> Violation {
    Violation {
        subcheck: sub.into(),
        class: class.into(),
        observed,
        case,
        detail,
    }
}

/// All structural + tag checks on one issued credential. Returns number of violations raised.
pub fn check_issued(case: u64, s: &Scenario, iss: &Issued, l: &mut Local, input: &dyn Fn() -> Value) -> u32 {
    let class = s.cfg.profile.name();
    let mut bad = 0;
    for c in &iss.loc.complaints {
        bad += 1;
        l.violate(viol(
            case,
            c.kind,
            class,
            format!("structural complaint: {}", c.kind),
            json!({"input": input(), "at": c.at, "complaint": c.detail, "payload": iss.payload,
                   "disclosures": iss.by.values().map(|d| d.text.clone()).collect::<Vec<_>>()}),
        ));
    }
    l.add("digests.checked", iss.loc.digest_uses.len() as u64);
    for p in iss.loc.map.keys() {
        match p.last() {
            Some(gen::Step::K(_)) => l.count("hidden.members"),
            _ => l.count("hidden.elements"),
        }
    }
    l.add("decoy.digests.seen", iss.loc.unmatched.len() as u64);
    // tag leak detector (independent of the JSON walk): every occurrence of a tag in U has
    // exactly one home text (the payload, or the disclosure of its nearest SD ancestor-or-self);
    // each text must contain each tag exactly as often as it is at home there, and no more.
    if bad == 0 {
        use std::collections::HashMap;
        // text ids: 0 = payload, 1.. = disclosures in by-order
        let mut texts: Vec<&str> = vec![iss.payload_text.as_str()];
        let mut id_of_raw: HashMap<&str, usize> = HashMap::new();
        for d in iss.by.values() {
            id_of_raw.insert(d.raw.as_str(), texts.len());
            texts.push(d.text.as_str());
        }
        let mut expected: HashMap<String, HashMap<usize, usize>> = HashMap::new();
        let mut hidden_tags = 0u64;
        let mut resolvable = true;
        for (tag, path) in model::tags_of(&s.u) {
            let home = match model::sd_home(&path, &s.strat.sd) {
                None => 0usize,
                Some(h) => {
                    hidden_tags += 1;
                    match iss.loc.map.get(&h).and_then(|raw| id_of_raw.get(raw.as_str())) {
                        Some(i) => *i,
                        None => {
                            resolvable = false;
                            continue;
                        }
                    }
                }
            };
            *expected.entry(tag).or_default().entry(home).or_default() += 1;
        }
        if resolvable {
            l.add("tags.hidden", hidden_tags);
            for (tag, homes) in &expected {
                l.count("tags.checked");
                for (i, t) in texts.iter().enumerate() {
                    let want = homes.get(&i).copied().unwrap_or(0);
                    let got = model::count_occurrences(t, tag);
                    if want != got {
                        bad += 1;
                        l.violate(viol(
                            case,
                            "tag-leak",
                            class,
                            format!(
                                "tag occurs {got} time(s) in {} where {want} expected",
                                if i == 0 { "the payload" } else { "a disclosure" }
                            ),
                            json!({"input": input(), "tag": tag, "text_index": i, "text": t, "payload_text": iss.payload_text,
                                   "disclosures": iss.by.values().map(|d| d.text.clone()).collect::<Vec<_>>()}),
                        ));
                        break;
                    }
                }
            }
        }
    }
    bad
}

fn report_issue_fail(case: u64, class: &str, f: IssueFail, l: &mut Local, input: &dyn Fn() -> Value) {
    match f {
        IssueFail::Call(o) => l.violate(viol(
            case,
            "issue",
            class,
            o.panic_signature().unwrap_or_else(|| o.describe()),
            json!({"input": input(), "history": api::history()}),
        )),
        IssueFail::Decode(e) => l.violate(viol(
            case,
            "issued-string-malformed",
            class,
            e,
            json!({"input": input(), "history": api::history()}),
        )),
    }
}

fn one_case(ctx: &Ctx, case: u64, l: &mut Local) {
    let mut r = Rng::for_case(ctx.seed, STREAM, case);
    let mut cfg = Config::from_index(case);
    // Custom over-weighted: half of the non-Custom slots are redirected to Custom
    if !cfg.strat.is_custom() && r.chance(50) {
        cfg.strat = *r.pick(&[StratKind::Custom10, StratKind::Custom40, StratKind::Custom80]);
    }
    let s = pipeline::gen_scenario(ctx, &mut r, cfg.clone());
    let class = cfg.profile.name();
    l.evals += 1;
    l.count(&format!("strategy.{}", cfg.strat.name()));
    if s.strat.paths.iter().any(|p| p.ends_with('.') || p.contains("..")) {
        l.count("custom.path-through-empty-name");
    }
    if s.strat.paths.iter().any(|p| p.starts_with("$.$")) {
        l.count("custom.path-through-dollar-name");
    }
    l.count(&format!("profile.{}", cfg.profile.name()));
    let input = || json!({"config": cfg.describe(), "claims": s.u, "strategy": s.strat.describe()});
    l.sample(case, input);
    if !s.strat.sd.is_empty() {
        let all = gen::all_paths(&s.u);
        let mut h = 0u64;
        for (i, p) in all.iter().enumerate() {
            if s.strat.sd.contains(p) {
                h = crate::rng::mix(h ^ (i as u64 + 1));
            }
        }
        l.distinct(crate::rng::mix(gen::shape_fingerprint(&s.u) ^ h.rotate_left(17) ^ cfg.bits()));
    }
    match pipeline::issue_scenario(&s) {
        Err(f) => report_issue_fail(case, class, f, l, &input),
        Ok(iss) => {
            l.count("issued");
            if check_issued(case, &s, &iss, l, &input) == 0 {
                l.count("issued.clean");
            }
        }
    }
    // the same claims through an issuer that signs with another algorithm family (HS384 / HS512, P-384, RSA with
    // PKCS#1 v1.5 or PSS, 2048-4096 bits): what is hidden and how (`_sd_alg` says sha-256) does not depend on it
    if case % 16 == 13 {
        let names: Vec<&str> = crate::keys::EXTRA_ALGS.iter().copied().chain(crate::keys::BIG_RSA.iter().copied()).collect();
        let an = names[((case / 16) % names.len() as u64) as usize];
        let mut issuer = sd_jwt_rs::SDJWTIssuer::new(crate::keys::extra_enc(an), Some(an.split('/').next().unwrap_or(an).to_string()));
        l.evals += 1;
        match pipeline::issue_with(&mut issuer, &s.u, &s.strat, cfg.holder, cfg.decoys, cfg.fmt) {
            Err(f) => report_issue_fail(case, &format!("issuer signing with {an}"), f, l, &input),
            Ok(iss) => {
                l.count("issued.other-signing-algorithms");
                check_issued(case, &s, &iss, l, &input);
            }
        }
    }

    // an array with more than 2^16 elements: index paths name exactly the elements they spell
    if case % 30_000 == 1 {
        let n = 65_540usize;
        let u = json!({"iss": "https://issuer.example/A", "exp": 4_000_000_000u64, "arr": (0..n).map(|i| i % 10).collect::<Vec<_>>()});
        let paths = vec!["$.arr[3]", "$.arr[65537]", "$.arr.[65539]"];
        let mut issuer = api::new_issuer(cfg.alg, 0, true);
        let out = api::issue_raw(&mut issuer, &u, sd_jwt_rs::ClaimsForSelectiveDisclosureStrategy::Custom(paths.clone()), None, false, cfg.fmt);
        l.evals += 1;
        match out.ok().and_then(|t| crate::model::Parts::parse(cfg.fmt, &t).ok()).and_then(|p| p.payload().ok().map(|pl| (p, pl))) {
            Some((parts, pl)) => {
                let hidden: Vec<usize> = pl["arr"].as_array().map(|a| a.iter().enumerate().filter(|(_, e)| e.is_object()).map(|(i, _)| i).collect()).unwrap_or_default();
                if hidden == vec![3, 65_537, 65_539] && parts.disclosures.len() == 3 {
                    l.count("huge-array.exact-elements-hidden");
                } else {
                    l.violate(viol(case, "element-hidden-but-not-designated", "array of 65 540 elements", format!("hidden positions {:?}, {} disclosures", hidden.iter().take(8).collect::<Vec<_>>(), parts.disclosures.len()), json!({"paths": paths})));
                }
            }
            None => l.violate(viol(case, "issue", "array of 65 540 elements", "issuance failed or result undecodable".into(), json!({"paths": paths}))),
        }
    }
    // malformed and non-existent paths
    if case % 10 == 0 {
        let good: Vec<String> = s.strat.paths.clone();
        let bad_paths = ["a", "", "$", "$a", " $.a", "$ .a", "$$.a", ".a", "$[0]", "a.$.b", "\u{ff04}.a", "\t$.a", "\u{a0}$.a", "\n$.a", "\u{feff}$.a"];
        let bad = *r.pick(&bad_paths);
        let mut paths: Vec<&str> = good.iter().map(|s| s.as_str()).collect();
        let pos = r.usize(paths.len() + 1);
        paths.insert(pos, bad);
        let mut issuer = api::new_issuer(cfg.alg, 0, true);
        let out = api::issue_raw(
            &mut issuer,
            &s.u,
            sd_jwt_rs::ClaimsForSelectiveDisclosureStrategy::Custom(paths),
            cfg.holder,
            cfg.decoys,
            cfg.fmt,
        );
        l.evals += 1;
        match out {
            Outcome::Err(_) => l.count("malformed-path.refused"),
            other => l.violate(viol(
                case,
                "malformed-path-accepted",
                "path-without-$.-prefix",
                other.panic_signature().unwrap_or_else(|| "Ok".into()),
                json!({"input": input(), "bad_path": bad, "history": api::history()}),
            )),
        }
        // ... also when there is nothing else to walk: claims that hold only iss / exp / iat (or nothing)
        for claims in [json!({"iss": "https://issuer.example/A", "exp": 4_000_000_000u64, "iat": 1_700_000_000u64}), json!({})] {
            let mut issuer = api::new_issuer(cfg.alg, 0, true);
            let out = api::issue_raw(&mut issuer, &claims, sd_jwt_rs::ClaimsForSelectiveDisclosureStrategy::Custom(vec![bad]), None, false, cfg.fmt);
            l.evals += 1;
            match out {
                Outcome::Err(_) => l.count("malformed-path.refused"),
                other => l.violate(viol(case, "malformed-path-accepted", "path-without-$.-prefix (claims with nothing to hide)", other.panic_signature().unwrap_or_else(|| "Ok".into()), json!({"claims": claims, "bad_path": bad}))),
            }
        }
        // the same issuer must still work afterwards, and non-existent paths have no effect:
        // issue with the good paths plus paths that name nothing, compare against the same SD set
        let mut extra = s.strat.clone();
        if extra.kind.is_custom() {
            extra.paths.push("$.no-such-claim#0;".into());
            extra.paths.push("$.no-such-claim#0;[2].x".into());
            if let Some(p) = gen::all_paths(&s.u).iter().find(|p| p.len() == 1 && !gen::always_visible(p)) {
                let base = gen::render_path(p, &mut r);
                extra.paths.push(format!("{base}[1234]"));
                extra.paths.push(format!("{base}[01]"));
                extra.paths.push(format!("{base}[+0]"));
                extra.paths.push(format!("{base} "));
                extra.paths.push(format!("{base}\u{a0}"));
                extra.paths.push(format!("{base}.no.such"));
            }
            let genuine = s.strat.paths.len();
            let tail: Vec<String> = extra.paths.split_off(genuine);
            for e in tail {
                if !gen::path_names_claim(&s.u, &e) {
                    extra.paths.push(e);
                }
            }
            let s2 = Scenario {
                cfg: cfg.clone(),
                u: s.u.clone(),
                strat: extra,
                explicit_alg: s.explicit_alg,
            };
            l.evals += 1;
            let input2 = || json!({"config": s2.cfg.describe(), "claims": s2.u, "strategy": s2.strat.describe(), "note": "with non-existent paths"});
            match pipeline::issue_with(&mut issuer, &s2.u, &s2.strat, cfg.holder, cfg.decoys, cfg.fmt) {
                Err(f) => report_issue_fail(case, "nonexistent-paths", f, l, &input2),
                Ok(iss) => {
                    l.count("nonexistent-path.issued");
                    if check_issued(case, &s2, &iss, l, &input2) == 0 {
                        l.count("nonexistent-path.no-effect");
                    }
                }
            }
        }
    }

    // exhaustive subsets of the paths of a small tree
    if case % 25 == 0 {
        let mut g = gen::GenCfg::new(cfg.profile, 5, api::now());
        g.safe_names = true;
        let u = gen::gen_claims(&mut r, &g);
        let paths: Vec<gen::Path> = gen::all_paths(&u).into_iter().filter(|p| !gen::always_visible(p)).collect();
        if paths.len() <= 8 {
            l.count("subset-enumeration.credentials");
            let fmt = if r.chance(50) { Fmt::Compact } else { Fmt::Json };
            for mask in 0u32..(1 << paths.len()) {
                let chosen: Vec<gen::Path> = paths
                    .iter()
                    .enumerate()
                    .filter(|(i, _)| mask >> i & 1 == 1)
                    .map(|(_, p)| p.clone())
                    .collect();
                let strat = gen::custom_strategy_for(&mut r, &chosen);
                let mut c2 = cfg.clone();
                c2.fmt = fmt;
                c2.strat = StratKind::Custom40;
                let s3 = Scenario {
                    cfg: c2,
                    u: u.clone(),
                    strat,
                    explicit_alg: true,
                };
                l.evals += 1;
                l.count("subset-enumeration.issuances");
                let input3 = || json!({"config": s3.cfg.describe(), "claims": s3.u, "strategy": s3.strat.describe(), "note": "subset enumeration"});
                match pipeline::issue_scenario(&s3) {
                    Err(f) => report_issue_fail(case, "subset-enumeration", f, l, &input3),
                    Ok(iss) => {
                        check_issued(case, &s3, &iss, l, &input3);
                    }
                }
            }
        }
    }
}
