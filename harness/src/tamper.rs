//! Fault generators (DESIGN.md §3.4): character-level tampering of token parts and structural
//! re-encodings. All tokens are ASCII, so positions are byte positions.

use crate::model::{b64d, b64e};
use serde_json::{Map, Value};

pub const B64URL: &str = "ABCDEFGHIJKLMNOPQRSTUVWXYZabcdefghijklmnopqrstuvwxyz0123456789-_";
pub const EXTRA: [char; 5] = ['.', '~', '=', ' ', '"'];

/// the 69-character substitution alphabet: base64url + { . ~ = space " }
pub fn alphabet69() -> Vec<char> {
    B64URL.chars().chain(EXTRA.iter().copied()).collect()
}

#[derive(Clone, Copy, Debug, PartialEq, Eq, Hash)]
pub enum CharOp {
    Sub(char),
    Del,
    Ins(char),
}

impl CharOp {
    pub fn name(&self) -> &'static str {
        match self {
            CharOp::Sub(_) => "substitute",
            CharOp::Del => "delete",
            CharOp::Ins(_) => "insert",
        }
    }
    pub fn code(&self) -> u64 {
        match self {
            CharOp::Sub(c) => 0x1000 + *c as u64,
            CharOp::Del => 0x2000,
            CharOp::Ins(c) => 0x3000 + *c as u64,
        }
    }
}

/// Apply `op` at byte position `pos` of the ASCII string `s`. Returns None when the result
/// equals the input (same-character substitution) or the position is out of range.
/// `pos == s.len()` is valid for insertions only (append).
pub fn apply(s: &str, pos: usize, op: CharOp) -> Option<String> {
    debug_assert!(s.is_ascii());
    let b = s.as_bytes();
    let mut out = Vec::with_capacity(b.len() + 1);
    match op {
        CharOp::Sub(c) => {
            if pos >= b.len() || b[pos] == c as u8 {
                return None;
            }
            out.extend_from_slice(&b[..pos]);
            out.push(c as u8);
            out.extend_from_slice(&b[pos + 1..]);
        }
        CharOp::Del => {
            if pos >= b.len() {
                return None;
            }
            out.extend_from_slice(&b[..pos]);
            out.extend_from_slice(&b[pos + 1..]);
        }
        CharOp::Ins(c) => {
            if pos > b.len() {
                return None;
            }
            out.extend_from_slice(&b[..pos]);
            out.push(c as u8);
            out.extend_from_slice(&b[pos..]);
        }
    }
    let o = String::from_utf8(out).ok()?;
    if o == s {
        None
    } else {
        Some(o)
    }
}

/// Re-encode one base64url JSON segment of a JWT (0 = header, 1 = payload) after editing it;
/// the other segments (in particular the signature) are kept byte-for-byte.
pub fn reencode_segment(jwt: &str, seg: usize, edit: impl FnOnce(&mut Value)) -> Option<String> {
    let mut parts: Vec<String> = jwt.split('.').map(String::from).collect();
    if parts.len() != 3 {
        return None;
    }
    let mut v: Value = serde_json::from_slice(&b64d(&parts[seg]).ok()?).ok()?;
    edit(&mut v);
    parts[seg] = b64e(v.to_string().as_bytes());
    let out = parts.join(".");
    if out == jwt {
        None
    } else {
        Some(out)
    }
}

pub fn segments(jwt: &str) -> Option<[String; 3]> {
    let p: Vec<&str> = jwt.split('.').collect();
    if p.len() != 3 {
        return None;
    }
    Some([p[0].to_string(), p[1].to_string(), p[2].to_string()])
}

/// Find every digest string inside a payload (entries of `_sd` arrays and `...` placeholders),
/// as JSON pointer-like accessors; used to "change one digest".
pub fn flip_first_digest(v: &mut Value) -> bool {
    fn flip(s: &str) -> String {
        let mut c: Vec<char> = s.chars().collect();
        if let Some(x) = c.first_mut() {
            *x = if *x == 'A' { 'B' } else { 'A' };
        }
        c.into_iter().collect()
    }
    match v {
        Value::Object(m) => {
            if let Some(Value::Array(a)) = m.get_mut("_sd") {
                if let Some(Value::String(s)) = a.first_mut() {
                    *s = flip(s);
                    return true;
                }
            }
            if m.len() == 1 {
                if let Some(Value::String(s)) = m.get_mut("...") {
                    *s = flip(s);
                    return true;
                }
            }
            for (_, c) in m.iter_mut() {
                if flip_first_digest(c) {
                    return true;
                }
            }
            false
        }
        Value::Array(a) => a.iter_mut().any(flip_first_digest),
        _ => false,
    }
}

pub fn obj_mut(v: &mut Value) -> Option<&mut Map<String, Value>> {
    v.as_object_mut()
}

/// Number of digest strings in a payload (entries of `_sd` arrays and `...` placeholders).
pub fn count_digests(v: &Value) -> usize {
    match v {
        Value::Object(m) => {
            let mut n = 0;
            for (k, c) in m {
                if k == "_sd" {
                    n += c.as_array().map(|a| a.iter().filter(|x| x.is_string()).count()).unwrap_or(0);
                } else if k == "..." && m.len() == 1 && c.is_string() {
                    n += 1;
                } else {
                    n += count_digests(c);
                }
            }
            n
        }
        Value::Array(a) => a.iter().map(count_digests).sum(),
        _ => 0,
    }
}

/// Flip the first character of the n-th digest (same enumeration order as `count_digests`).
pub fn flip_nth_digest(v: &mut Value, n: usize, seen: &mut usize) -> bool {
    fn flip(s: &mut String) {
        let first = s.chars().next().unwrap_or('A');
        let repl = if first == 'A' { 'B' } else { 'A' };
        let rest: String = s.chars().skip(1).collect();
        *s = format!("{repl}{rest}");
    }
    match v {
        Value::Object(m) => {
            let single = m.len() == 1;
            for (k, c) in m.iter_mut() {
                if k == "_sd" {
                    if let Some(a) = c.as_array_mut() {
                        for x in a.iter_mut() {
                            if let Value::String(s) = x {
                                if *seen == n {
                                    flip(s);
                                    return true;
                                }
                                *seen += 1;
                            }
                        }
                    }
                } else if k == "..." && single && c.is_string() {
                    if *seen == n {
                        if let Value::String(s) = c {
                            flip(s);
                        }
                        return true;
                    }
                    *seen += 1;
                } else if flip_nth_digest(c, n, seen) {
                    return true;
                }
            }
            false
        }
        Value::Array(a) => a.iter_mut().any(|c| flip_nth_digest(c, n, seen)),
        _ => false,
    }
}

/// Non-ASCII / control characters for single-character insertions and substitutions: a parser
/// that strips or normalises "invisible" code points would let these through.
pub const ODD_CHARS: [char; 16] = [
    '\u{feff}', '\u{200b}', '\u{200c}', '\u{200d}', '\u{2060}', '\u{a0}', '\u{85}', 'é', '\u{ff0e}', '\u{ff5e}', '\u{0}', '\n', '\t', '\r', '\u{ad}', '\u{2028}',
];

/// Insert (replace = false) or substitute (replace = true) one arbitrary character at byte
/// position `pos` of an ASCII string.
pub fn apply_char(s: &str, pos: usize, c: char, replace: bool) -> Option<String> {
    if pos > s.len() || (replace && pos >= s.len()) {
        return None;
    }
    let mut out = String::with_capacity(s.len() + 4);
    out.push_str(&s[..pos]);
    out.push(c);
    out.push_str(&s[if replace { pos + 1 } else { pos }..]);
    Some(out)
}

/// ASN.1 DER `SEQUENCE { INTEGER r, INTEGER s }` of a 64-byte raw ECDSA signature, base64url.
pub fn ecdsa_sig_to_der_b64(sig_b64: &str) -> Option<String> {
    let raw = b64d(sig_b64).ok()?;
    if raw.len() != 64 {
        return None;
    }
    let int = |x: &[u8]| -> Vec<u8> {
        let mut v: Vec<u8> = x.iter().copied().skip_while(|b| *b == 0).collect();
        if v.is_empty() {
            v.push(0);
        }
        if v[0] & 0x80 != 0 {
            v.insert(0, 0);
        }
        let mut out = vec![0x02, v.len() as u8];
        out.extend(v);
        out
    };
    let mut body = int(&raw[..32]);
    body.extend(int(&raw[32..]));
    let mut der = vec![0x30, body.len() as u8];
    der.extend(body);
    Some(b64e(&der))
}

/// Text whose multi-byte characters sit at every small byte offset, optionally right after a character that
/// text-processing code likes to look for (`%`, `\`, `&`, `+`, `:`, `/`, `.`, `=`, `~`): byte-offset slicing,
/// fixed-width windows and "skip n bytes after the marker" loops all panic or mis-slice on one of these, while
/// ASCII-only inputs never notice.
pub fn boundary_text(r: &mut crate::rng::Rng) -> String {
    const ASCII: &str = "ES256https://a.example/none";
    // (the second row: characters whose upper- / lower-case mapping has another UTF-8 length or is several
    // characters — KELVIN SIGN, dotted capital I, capital sharp s, ANGSTROM SIGN, sharp s, n-apostrophe, ff ligature)
    const WIDE: [char; 17] = ['\u{e9}', '\u{17f}', '\u{b2}', '\u{20ac}', '\u{2026}', '\u{ffff}', '\u{1f600}', '\u{10000}', '\u{10ffff}',
        '\u{212a}', '\u{130}', '\u{1e9e}', '\u{212b}', '\u{df}', '\u{149}', '\u{fb00}', '\u{1f0}'];
    const MARK: [&str; 10] = ["", "%", "\\", "&", "+", ":", "/", ".", "=", "~"];
    let start = r.below(20) as usize;
    let pre = r.below(9) as usize;
    let mut s: String = ASCII.chars().cycle().skip(start).take(pre).collect();
    s.push_str(MARK[r.below(MARK.len() as u64) as usize]);
    let gap = r.below(3) as usize;
    s.extend(ASCII.chars().skip(start % 7).take(gap));
    s.push(WIDE[r.below(WIDE.len() as u64) as usize]);
    if r.chance(30) {
        s.push(WIDE[r.below(WIDE.len() as u64) as usize]);
    }
    let post = r.below(5) as usize;
    s.extend(ASCII.chars().skip(2).take(post));
    // now and then inside the prefixes / suffixes that parsers of media types, hash names and URIs look for
    match r.below(10) {
        0 => s.push_str(*r.pick(&["+sd-jwt", "+jwt", "+SD-JWT", "/json", "-256", "://x", "=="])),
        1 => s = format!("{}{s}", *r.pick(&["application/", "sha-", "urn:", "Bearer ", "did:"])),
        2 => s = format!("{}{s}{}", *r.pick(&["application/", "APPLICATION/"]), *r.pick(&["+sd-jwt", "+jwt"])),
        _ => {}
    }
    s
}
