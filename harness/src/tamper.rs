//! Fault generators (DESIGN.md §3.4) — filled in with C02-C04.
