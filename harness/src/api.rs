//! Boundary recorder (DESIGN.md §2.1): every call into sd-jwt-rs goes through these wrappers.
//! Each call is recorded (call event before, return event after) in a per-thread history that
//! the monitors attach to violation reports; panics are caught and their site captured.

use crate::gen::Strategy;
use crate::keys::{self, Alg};
use crate::model::Fmt;
use jsonwebtoken::{DecodingKey, Header};
use sd_jwt_rs::{SDJWTHolder, SDJWTIssuer, SDJWTVerifier};
use serde_json::{json, Map, Value};
use std::cell::RefCell;
use std::panic::{catch_unwind, AssertUnwindSafe};
use std::rc::Rc;

#[derive(Clone, Debug, PartialEq)]
pub enum Outcome<T> {
    Ok(T),
    Err(String),
    /// (site "file:line", message)
    Panic(String, String),
}

impl<T> Outcome<T> {
    pub fn is_ok(&self) -> bool {
        matches!(self, Outcome::Ok(_))
    }
    pub fn is_err(&self) -> bool {
        matches!(self, Outcome::Err(_))
    }
    pub fn is_panic(&self) -> bool {
        matches!(self, Outcome::Panic(..))
    }
    pub fn ok(self) -> Option<T> {
        match self {
            Outcome::Ok(t) => Some(t),
            _ => None,
        }
    }
    pub fn as_ok(&self) -> Option<&T> {
        match self {
            Outcome::Ok(t) => Some(t),
            _ => None,
        }
    }
    /// Short class for tallies: "ok" | "err" | "panic"
    pub fn class(&self) -> &'static str {
        match self {
            Outcome::Ok(_) => "ok",
            Outcome::Err(_) => "err",
            Outcome::Panic(..) => "panic",
        }
    }
    /// Text for signatures / reports (no line numbers for panics: file + message).
    pub fn describe(&self) -> String {
        match self {
            Outcome::Ok(_) => "Ok".into(),
            Outcome::Err(e) => format!("Err({e})"),
            Outcome::Panic(site, msg) => format!("PANIC at {site}: {msg}"),
        }
    }
    pub fn panic_signature(&self) -> Option<String> {
        match self {
            Outcome::Panic(site, msg) => {
                let file = site.rsplit_once(':').map(|(f, _)| f).unwrap_or(site);
                Some(format!("{file}: {msg}"))
            }
            _ => None,
        }
    }
    pub fn map<U>(self, f: impl FnOnce(T) -> U) -> Outcome<U> {
        match self {
            Outcome::Ok(t) => Outcome::Ok(f(t)),
            Outcome::Err(e) => Outcome::Err(e),
            Outcome::Panic(a, b) => Outcome::Panic(a, b),
        }
    }
}

thread_local! {
    static LAST_PANIC: RefCell<Option<(String, String)>> = const { RefCell::new(None) };
    static HISTORY: RefCell<Vec<Value>> = const { RefCell::new(Vec::new()) };
    static COUNTS: RefCell<[u64; 12]> = const { RefCell::new([0; 12]) };
}

/// Install the process-wide panic hook: records (site, message) for the current thread, prints nothing.
pub fn install_panic_hook() {
    std::panic::set_hook(Box::new(|info| {
        let loc = info
            .location()
            .map(|l| {
                let f = l.file();
                // in-repo files are reported relative to the repository
                let f = f.strip_prefix("/repo/").unwrap_or(f);
                format!("{}:{}", f, l.line())
            })
            .unwrap_or_else(|| "?".into());
        let msg = if let Some(s) = info.payload().downcast_ref::<&str>() {
            s.to_string()
        } else if let Some(s) = info.payload().downcast_ref::<String>() {
            s.clone()
        } else {
            "<non-string panic>".into()
        };
        let msg: String = msg.chars().take(200).collect();
        LAST_PANIC.with(|p| *p.borrow_mut() = Some((loc, msg)));
    }));
}

pub fn last_panic_site() -> String {
    LAST_PANIC.with(|p| p.borrow().clone().map(|(a, b)| format!("{a}: {b}")).unwrap_or_else(|| "?".into()))
}

fn guarded<T>(f: impl FnOnce() -> Result<T, sd_jwt_rs::error::Error>) -> Outcome<T> {
    LAST_PANIC.with(|p| *p.borrow_mut() = None);
    match catch_unwind(AssertUnwindSafe(f)) {
        Ok(Ok(t)) => Outcome::Ok(t),
        Ok(Err(e)) => Outcome::Err(e.to_string()),
        Err(_) => {
            let (site, msg) = LAST_PANIC
                .with(|p| p.borrow_mut().take())
                .unwrap_or(("?".into(), "?".into()));
            Outcome::Panic(site, msg)
        }
    }
}

// op indices for COUNTS: op*3 + {ok,err,panic}
const OP_ISSUE: usize = 0;
const OP_HOLDER_NEW: usize = 1;
const OP_PRESENT: usize = 2;
const OP_VERIFY: usize = 3;

fn record<T>(op: usize, name: &str, args: impl FnOnce() -> Value, out: &Outcome<T>) {
    let k = match out {
        Outcome::Ok(_) => 0,
        Outcome::Err(_) => 1,
        Outcome::Panic(..) => 2,
    };
    COUNTS.with(|c| c.borrow_mut()[op * 3 + k] += 1);
    HISTORY.with(|h| {
        let mut h = h.borrow_mut();
        if h.len() < 64 {
            let seq = h.len();
            h.push(json!({"seq": seq, "op": name, "args": args(), "result": out.describe()}));
        }
    });
}

/// Start a new case: clear the per-thread history.
pub fn begin_case() {
    HISTORY.with(|h| h.borrow_mut().clear());
}
pub fn history() -> Value {
    HISTORY.with(|h| Value::Array(h.borrow().clone()))
}
/// Take the per-thread API call counters (op x outcome) and reset them.
pub fn take_counts() -> Vec<(String, u64)> {
    let names = ["issue", "holder_new", "present", "verify"];
    let oc = ["ok", "err", "panic"];
    COUNTS.with(|c| {
        let mut c = c.borrow_mut();
        let mut out = vec![];
        for (i, n) in names.iter().enumerate() {
            for (j, o) in oc.iter().enumerate() {
                if c[i * 3 + j] > 0 {
                    out.push((format!("api.{n}.{o}"), c[i * 3 + j]));
                }
            }
        }
        *c = [0; 12];
        out
    })
}

fn trunc(s: &str) -> String {
    if s.len() > 300 {
        let mut e = 300;
        while !s.is_char_boundary(e) {
            e -= 1;
        }
        format!("{}…({} bytes)", &s[..e], s.len())
    } else {
        s.to_string()
    }
}

// ------------------------------------------------------------------------------------------

pub fn new_issuer(alg: Alg, key_idx: usize, explicit_alg: bool) -> SDJWTIssuer {
    // ES256 is the library default; `explicit_alg=false` exercises the `None` path for it
    let a = if alg == Alg::ES256 && !explicit_alg {
        None
    } else {
        Some(alg.name().to_string())
    };
    SDJWTIssuer::new(keys::issuer_enc(alg, key_idx), a)
}

pub fn issue(
    issuer: &mut SDJWTIssuer,
    claims: &Value,
    strategy: &Strategy,
    holder: Option<(Alg, usize)>,
    decoys: bool,
    fmt: Fmt,
) -> Outcome<String> {
    let jwk = holder.map(|(a, i)| keys::holder_jwk(a, i));
    let out = guarded(|| issuer.issue_sd_jwt(claims.clone(), strategy.to_lib(), jwk, decoys, fmt.lib()));
    record(OP_ISSUE, "issue_sd_jwt", || json!({"claims": trunc(&claims.to_string()), "strategy": strategy.describe(), "holder": holder.map(|(a,i)| format!("{}#{i}", a.name())), "decoys": decoys, "format": fmt.name()}),
        &out,
    );
    out
}

/// Issue with an arbitrary holder JWK given as JSON (symmetric, RSA, with extra parameters ...).
pub fn issue_with_jwk(issuer: &mut SDJWTIssuer, claims: &Value, strategy: &Strategy, jwk: Option<&Value>, decoys: bool, fmt: Fmt) -> Outcome<String> {
    let parsed: Option<jsonwebtoken::jwk::Jwk> = jwk.and_then(|j| serde_json::from_value(j.clone()).ok());
    let out = guarded(|| issuer.issue_sd_jwt(claims.clone(), strategy.to_lib(), parsed, decoys, fmt.lib()));
    record(OP_ISSUE, "issue_sd_jwt", || json!({"claims": trunc(&claims.to_string()), "strategy": strategy.describe(), "holder_jwk": jwk, "decoys": decoys, "format": fmt.name()}), &out);
    out
}

/// Issue with a raw library strategy (malformed paths etc.).
pub fn issue_raw(
    issuer: &mut SDJWTIssuer,
    claims: &Value,
    strategy: sd_jwt_rs::ClaimsForSelectiveDisclosureStrategy,
    holder: Option<(Alg, usize)>,
    decoys: bool,
    fmt: Fmt,
) -> Outcome<String> {
    let jwk = holder.map(|(a, i)| keys::holder_jwk(a, i));
    let desc = format!("{strategy:?}");
    let out = guarded(|| issuer.issue_sd_jwt(claims.clone(), strategy, jwk, decoys, fmt.lib()));
    record(OP_ISSUE, "issue_sd_jwt", || json!({"claims": trunc(&claims.to_string()), "strategy": trunc(&desc), "decoys": decoys, "format": fmt.name()}),
        &out,
    );
    out
}

pub fn holder_new(sd_jwt: &str, fmt: Fmt) -> Outcome<SDJWTHolder> {
    let out = guarded(|| SDJWTHolder::new(sd_jwt.to_string(), fmt.lib()));
    record(OP_HOLDER_NEW, "SDJWTHolder::new", || json!({"input": trunc(sd_jwt), "format": fmt.name()}),
        &out,
    );
    out
}

#[derive(Clone, Debug)]
pub struct KbArgs {
    pub nonce: String,
    pub aud: String,
    pub alg: Alg,
    pub key_idx: usize,
    /// pass `None` as sign_alg (library default ES256) when the key is ES256
    pub explicit_alg: bool,
}

pub fn present(holder: &mut SDJWTHolder, sel: &Value, kb: Option<&KbArgs>) -> Outcome<String> {
    let sel_map: Map<String, Value> = sel.as_object().cloned().unwrap_or_default();
    let out = guarded(|| match kb {
        None => holder.create_presentation(sel_map, None, None, None, None),
        Some(k) => holder.create_presentation(
            sel_map,
            Some(k.nonce.clone()),
            Some(k.aud.clone()),
            Some(keys::holder_enc(k.alg, k.key_idx)),
            if k.alg == Alg::ES256 && !k.explicit_alg {
                None
            } else {
                Some(k.alg.name().to_string())
            },
        ),
    });
    record(OP_PRESENT, "create_presentation", || json!({"selection": trunc(&sel.to_string()), "kb": kb.map(|k| json!({"nonce": trunc(&k.nonce), "aud": trunc(&k.aud), "alg": k.alg.name(), "key": k.key_idx}))}),
        &out,
    );
    out
}

/// create_presentation with raw optional arguments (inconsistent combinations for C11/C07).
pub fn present_raw(
    holder: &mut SDJWTHolder,
    sel: &Value,
    nonce: Option<String>,
    aud: Option<String>,
    key: Option<(Alg, usize)>,
    sign_alg: Option<String>,
) -> Outcome<String> {
    let sel_map: Map<String, Value> = sel.as_object().cloned().unwrap_or_default();
    let desc = json!({"selection": trunc(&sel.to_string()), "nonce": nonce, "aud": aud, "key": key.map(|(a,i)| format!("{}#{i}", a.name())), "sign_alg": sign_alg});
    let out = guarded(|| {
        holder.create_presentation(
            sel_map,
            nonce,
            aud,
            key.map(|(a, i)| keys::holder_enc(a, i)),
            sign_alg,
        )
    });
    record(OP_PRESENT, "create_presentation", || desc, &out);
    out
}

/// What the resolver hands back.
#[derive(Clone, Debug)]
pub enum Resolver {
    /// always this key
    Fixed(Alg, usize),
    /// keyed by iss: "…/A" -> key 0, "…/B" -> key 1 of the given algorithm; anything else key 1
    ByIss(Alg),
    /// HS256 secret = the public PEM bytes of an asymmetric key (confusion attack set-up)
    SecretFromPublic(Alg, usize),
    /// keyed by the header's `kid`: "k0" -> key 0, anything else (or none) -> key 1
    ByKid(Alg),
    /// key of one of the additional signing-oracle algorithms (RS256, PS256, ES384, ...)
    Extra(&'static str),
    /// like Fixed, but the callback first verifies ANOTHER presentation on the same thread
    /// (a resolver that checks a trust statement before it hands out the key)
    Reentrant(Alg, usize, String, Fmt),
    /// the issuer's key is a HOLDER key pair (self-issued credentials)
    HolderKey(Alg, usize),
}

#[derive(Clone, Debug, PartialEq)]
pub struct ResolverCall {
    pub iss: String,
    pub alg: String,
    /// the whole header the resolver was handed, as JSON
    pub header: Value,
}

pub struct Verified {
    pub out: Outcome<Value>,
    pub resolver_calls: Vec<ResolverCall>,
}

pub fn verify(pres: &str, resolver: &Resolver, kb: Option<(&str, &str)>, fmt: Fmt) -> Verified {
    verify_raw(
        pres,
        resolver,
        kb.map(|(a, _)| a.to_string()),
        kb.map(|(_, n)| n.to_string()),
        fmt,
    )
}

pub fn verify_raw(
    pres: &str,
    resolver: &Resolver,
    aud: Option<String>,
    nonce: Option<String>,
    fmt: Fmt,
) -> Verified {
    let calls: Rc<RefCell<Vec<ResolverCall>>> = Rc::new(RefCell::new(vec![]));
    let calls2 = calls.clone();
    let res = resolver.clone();
    let cb = Box::new(move |iss: &str, header: &Header| -> DecodingKey {
        calls2.borrow_mut().push(ResolverCall {
            iss: iss.to_string(),
            alg: format!("{:?}", header.alg),
            header: serde_json::to_value(header).unwrap_or(Value::Null),
        });
        match &res {
            Resolver::Fixed(a, i) => keys::issuer_dec(*a, *i),
            Resolver::ByIss(a) => keys::issuer_dec(*a, if iss.ends_with("/A") { 0 } else { 1 }),
            Resolver::SecretFromPublic(a, i) => DecodingKey::from_secret(&keys::issuer_public_bytes(*a, *i)),
            Resolver::ByKid(a) => keys::issuer_dec(*a, if header.kid.as_deref() == Some("k0") { 0 } else { 1 }),
            Resolver::Extra(n) => keys::extra_dec(n),
            Resolver::HolderKey(a, i) => jsonwebtoken::DecodingKey::from_jwk(&keys::holder_jwk(*a, *i)).expect("holder jwk as decoding key"),
            Resolver::Reentrant(a, i, inner, f) => {
                let a2 = *a;
                let i2 = *i;
                let _ = SDJWTVerifier::new(inner.clone(), Box::new(move |_, _| keys::issuer_dec(a2, i2)), None, None, f.lib());
                keys::issuer_dec(*a, *i)
            }
        }
    });
    let desc = json!({"presentation": trunc(pres), "resolver": format!("{resolver:?}"), "aud": aud.as_deref().map(trunc), "nonce": nonce.as_deref().map(trunc), "format": fmt.name()});
    let out = guarded(|| SDJWTVerifier::new(pres.to_string(), cb, aud, nonce, fmt.lib()).map(|v| v.verified_claims));
    record(OP_VERIFY, "SDJWTVerifier::new", || desc, &out);
    let resolver_calls = calls.borrow().clone();
    Verified { out, resolver_calls }
}

/// Signing oracle (DESIGN.md §3.3 f): sign an arbitrary payload with a test key through
/// jsonwebtoken directly, so that validly signed but ill-formed tokens exist.
pub fn sign_payload(alg: Alg, key_idx: usize, payload: &Value, typ: Option<&str>) -> String {
    let mut h = Header::new(alg.jwt());
    h.typ = typ.map(String::from);
    jsonwebtoken::encode(&h, payload, &keys::issuer_enc(alg, key_idx)).expect("signing oracle")
}

pub fn sign_kb(alg: Alg, key_idx: usize, payload: &Value, typ: Option<&str>) -> String {
    let mut h = Header::new(alg.jwt());
    h.typ = typ.map(String::from);
    jsonwebtoken::encode(&h, payload, &keys::holder_enc(alg, key_idx)).expect("kb signing oracle")
}

/// Sign with an arbitrary encoding key and raw header JSON (alg confusion etc.): builds the
/// JWS by hand for HS256; for others use jsonwebtoken's signer on the message.
pub fn sign_raw(header_json: &Value, payload: &Value, alg: jsonwebtoken::Algorithm, key: &jsonwebtoken::EncodingKey) -> String {
    let h = crate::model::b64e(header_json.to_string().as_bytes());
    let p = crate::model::b64e(payload.to_string().as_bytes());
    let msg = format!("{h}.{p}");
    let sig = jsonwebtoken::crypto::sign(msg.as_bytes(), key, alg).expect("raw sign");
    format!("{msg}.{sig}")
}

/// Sign literal header / payload TEXT (not re-serialised): tokens whose JSON is spelled with
/// escapes or white space that no serialiser in the library would emit.
pub fn sign_text(header_text: &str, payload_text: &str, alg: jsonwebtoken::Algorithm, key: &jsonwebtoken::EncodingKey) -> String {
    let h = crate::model::b64e(header_text.as_bytes());
    let p = crate::model::b64e(payload_text.as_bytes());
    let msg = format!("{h}.{p}");
    let sig = jsonwebtoken::crypto::sign(msg.as_bytes(), key, alg).expect("raw sign");
    format!("{msg}.{sig}")
}

pub fn now() -> u64 {
    jsonwebtoken::get_current_timestamp()
}
