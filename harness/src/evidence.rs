//! Per-run accumulators, parallel case runner, known-findings matching, evidence / replay
//! writers and the three-valued verdict (DESIGN.md §2.5 – §2.7).

use serde_json::{json, Map, Value};
use std::collections::{BTreeMap, HashSet};
use std::sync::atomic::{AtomicU64, Ordering};
use std::sync::Mutex;
use std::time::Instant;

#[derive(Clone, Copy, Debug, PartialEq, Eq)]
pub enum Tier {
    Quick,
    Thorough,
}
impl Tier {
    pub fn name(self) -> &'static str {
        match self {
            Tier::Quick => "quick",
            Tier::Thorough => "thorough",
        }
    }
}

#[derive(Clone, Debug)]
pub struct Ctx {
    pub property: String,
    pub seed: u64,
    pub tier: Tier,
    pub threads: usize,
    /// Some(case) when replaying exactly one case
    pub only_case: Option<u64>,
    /// scale factor on case counts (VERIF_SCALE, default 1.0) for smoke runs
    pub scale: f64,
    pub verif_dir: String,
    /// where evidence/ and replays/ are written (VERIF_OUT, default = verif_dir)
    pub out_dir: String,
}

impl Ctx {
    pub fn cases(&self, quick: u64, thorough: u64) -> u64 {
        let n = match self.tier {
            Tier::Quick => quick,
            Tier::Thorough => thorough,
        };
        ((n as f64 * self.scale) as u64).max(1)
    }
}

#[derive(Clone, Debug)]
pub struct Violation {
    /// sub-check id inside the property's monitor
    pub subcheck: String,
    /// classifier of the failing input (profile / attack class / deviation)
    pub class: String,
    /// observed error text or panic file+message (never a line number)
    pub observed: String,
    pub case: u64,
    /// everything needed to understand and replay: inputs, history, expected vs got
    pub detail: Value,
}

impl Violation {
    pub fn signature(&self) -> String {
        format!("{} | {} | {}", self.subcheck, self.class, self.observed)
    }
}

#[derive(Default)]
pub struct Local {
    pub evals: u64,
    pub fingerprints: HashSet<u64>,
    pub counters: BTreeMap<String, u64>,
    pub samples: Vec<(u64, Value)>,
    pub violations: Vec<Violation>,
    pub violation_count: u64,
    sig_seen: BTreeMap<String, u32>,
}

impl Local {
    pub fn count(&mut self, key: &str) {
        *self.counters.entry(key.to_string()).or_default() += 1;
    }
    pub fn add(&mut self, key: &str, n: u64) {
        *self.counters.entry(key.to_string()).or_default() += n;
    }
    pub fn max(&mut self, key: &str, n: u64) {
        let e = self.counters.entry(key.to_string()).or_default();
        if n > *e {
            *e = n;
        }
    }
    /// a distinct & non-trivial case (caller applies the property's rule)
    pub fn distinct(&mut self, fp: u64) {
        self.fingerprints.insert(fp);
    }
    pub fn sample(&mut self, case: u64, v: impl FnOnce() -> Value) {
        if self.samples.len() < 4 {
            self.samples.push((case, v()));
        }
    }
    pub fn violate(&mut self, v: Violation) {
        self.violation_count += 1;
        let n = self.sig_seen.entry(v.signature()).or_default();
        *n += 1;
        if *n <= 2 && self.violations.len() < 400 {
            self.violations.push(v);
        }
    }
    fn merge(&mut self, o: Local) {
        self.evals += o.evals;
        self.fingerprints.extend(o.fingerprints);
        for (k, v) in o.counters {
            if k.starts_with("max.") {
                let e = self.counters.entry(k).or_default();
                if v > *e {
                    *e = v;
                }
            } else {
                *self.counters.entry(k).or_default() += v;
            }
        }
        self.samples.extend(o.samples);
        self.violation_count += o.violation_count;
        self.violations.extend(o.violations);
    }
}

/// Run `n` cases on `ctx.threads` worker threads; case `i` must be a pure function of
/// (ctx.seed, i). Work is dealt in small chunks from an atomic counter.
pub fn run_cases<F>(ctx: &Ctx, n: u64, f: F) -> Local
where
    F: Fn(u64, &mut Local) + Sync,
{
    if let Some(c) = ctx.only_case {
        let mut l = Local::default();
        crate::api::begin_case();
        f(c, &mut l);
        for (k, v) in crate::api::take_counts() {
            l.add(&k, v);
        }
        return l;
    }
    let next = AtomicU64::new(0);
    let merged = Mutex::new(Local::default());
    let chunk = (n / (ctx.threads as u64 * 16)).clamp(1, 64);
    std::thread::scope(|s| {
        for _ in 0..ctx.threads {
            s.spawn(|| {
                let mut l = Local::default();
                loop {
                    let start = next.fetch_add(chunk, Ordering::Relaxed);
                    if start >= n {
                        break;
                    }
                    for case in start..(start + chunk).min(n) {
                        crate::api::begin_case();
                        f(case, &mut l);
                    }
                }
                for (k, v) in crate::api::take_counts() {
                    l.add(&k, v);
                }
                merged.lock().unwrap().merge(l);
            });
        }
    });
    let mut l = merged.into_inner().unwrap();
    l.samples.sort_by_key(|(c, _)| *c);
    l.samples.truncate(4);
    l.violations.sort_by_key(|v| v.case);
    l
}

pub struct Report {
    pub level: &'static str,
    pub rule: String,
    pub local: Local,
    /// (counter key, minimum) — coverage floors; unmet => INCONCLUSIVE
    pub floors: Vec<(String, u64)>,
    pub assumptions: Vec<String>,
    /// extra "observed" entries (sanitizer legs etc.)
    pub extra: Map<String, Value>,
    pub inconclusive: Vec<String>,
}

impl Report {
    pub fn new(level: &'static str, rule: &str, local: Local) -> Report {
        Report {
            level,
            rule: rule.to_string(),
            local,
            floors: vec![],
            assumptions: vec![],
            extra: Map::new(),
            inconclusive: vec![],
        }
    }
    pub fn floor(&mut self, key: &str, min: u64) {
        self.floors.push((key.to_string(), min));
    }
    pub fn merge_local(&mut self, o: Local) {
        self.local.merge(o);
    }
}

#[derive(Debug)]
struct KnownFinding {
    property: String,
    signature: String,
    what: String,
}

fn load_known(ctx: &Ctx) -> Vec<KnownFinding> {
    let path = format!("{}/known_findings.json", ctx.verif_dir);
    let text = match std::fs::read_to_string(&path) {
        Ok(t) => t,
        Err(_) => return vec![],
    };
    let v: Value = match serde_json::from_str(&text) {
        Ok(v) => v,
        Err(_) => return vec![],
    };
    let mut out = vec![];
    for f in v["findings"].as_array().cloned().unwrap_or_default() {
        if f["status"] == "known" {
            out.push(KnownFinding {
                property: f["property"].as_str().unwrap_or("").to_string(),
                signature: f["signature"].as_str().unwrap_or("").to_string(),
                what: f["what"].as_str().unwrap_or("").to_string(),
            });
        }
    }
    out
}

/// Finish a run: print the verdict lines, write evidence and replays, return the exit code.
pub fn finish(ctx: &Ctx, mut rep: Report, t0: Instant) -> i32 {
    let id = &ctx.property;
    let known = load_known(ctx);
    let mut new_violations: Vec<&Violation> = vec![];
    let mut known_hit: BTreeMap<String, (String, u64)> = BTreeMap::new();
    for v in &rep.local.violations {
        let sig = v.signature();
        if let Some(k) = known.iter().find(|k| &k.property == id && k.signature == sig) {
            known_hit.entry(sig).or_insert((k.what.clone(), 0)).1 += 1;
        } else {
            new_violations.push(v);
        }
    }
    for (sig, (what, _)) in &known_hit {
        println!("KNOWN-FINDING: property={id} {what} [{sig}]");
    }

    // floors
    for (k, min) in &rep.floors {
        let got = rep.local.counters.get(k).copied().unwrap_or(0);
        if got < *min && ctx.only_case.is_none() {
            rep.inconclusive
                .push(format!("coverage floor not met: {k}={got} < {min}"));
        }
    }

    let mut exit = 0;
    if !new_violations.is_empty() {
        exit = 1;
        let dir = format!("{}/replays/{}", ctx.out_dir, id);
        let _ = std::fs::create_dir_all(&dir);
        let mut printed: HashSet<String> = HashSet::new();
        for v in &new_violations {
            let sig = v.signature();
            if !printed.insert(sig.clone()) || printed.len() > 12 {
                continue;
            }
            let path = format!("{dir}/{}-{}-{}.json", ctx.seed, v.case, printed.len());
            let body = json!({
                "property": id, "seed": ctx.seed, "tier": ctx.tier.name(), "case": v.case,
                "subcheck": v.subcheck, "class": v.class, "observed": v.observed,
                "signature": sig, "detail": v.detail,
                "replay": format!("./check {id} --replay {path}"),
            });
            let _ = std::fs::write(&path, serde_json::to_string_pretty(&body).unwrap());
            println!("VIOLATION property={id} replay={path}");
            println!("  signature: {sig}");
        }
    } else if !rep.inconclusive.is_empty() {
        exit = 2;
        for r in &rep.inconclusive {
            println!("INCONCLUSIVE property={id} reason={r}");
        }
    }

    // evidence
    let unlisted = new_violations.len() as u64;
    let mut observed = Map::new();
    for (k, v) in &rep.local.counters {
        observed.insert(k.clone(), json!(v));
    }
    for (k, v) in rep.extra.iter() {
        observed.insert(k.clone(), v.clone());
    }
    let samples: Vec<Value> = rep.local.samples.iter().map(|(c, v)| json!({"case": c, "input": v})).collect();
    let verdict = match exit {
        0 => "held-on-what-was-observed",
        1 => "violated",
        _ => "inconclusive",
    };
    let ev = json!({
        "property_id": id,
        "tier": ctx.tier.name(),
        "seed": ctx.seed,
        "level": rep.level,
        "coverage": {
            "evaluations": rep.local.evals,
            "distinct_nontrivial": rep.local.fingerprints.len(),
            "rule": rep.rule,
            "samples": samples,
            "observed": observed,
            "exhaustive": false,
        },
        "assumptions": rep.assumptions,
        "wall_s": (t0.elapsed().as_secs_f64() * 100.0).round() / 100.0,
        "violations": unlisted,
        "verdict": verdict,
        "violation_events_total": rep.local.violation_count,
        "known_findings_hit": known_hit.iter().map(|(s,(w,n))| json!({"signature": s, "what": w, "events": n})).collect::<Vec<_>>(),
        "inconclusive_reasons": rep.inconclusive,
        "threads": ctx.threads,
    });
    if ctx.only_case.is_none() {
        let dir = format!("{}/evidence", ctx.out_dir);
        let _ = std::fs::create_dir_all(&dir);
        let path = format!("{dir}/{id}.json");
        if let Err(e) = std::fs::write(&path, serde_json::to_string_pretty(&ev).unwrap()) {
            println!("INCONCLUSIVE property={id} reason=cannot write evidence: {e}");
            if exit == 0 {
                exit = 2;
            }
        }
    }
    println!(
        "{id} {} seed={} verdict={verdict} evaluations={} distinct_nontrivial={} violations_unlisted={} known_hits={} wall={:.1}s",
        ctx.tier.name(),
        ctx.seed,
        rep.local.evals,
        rep.local.fingerprints.len(),
        unlisted,
        known_hit.len(),
        t0.elapsed().as_secs_f64()
    );
    exit
}
