//! Per-run accumulators, parallel case runner, known-findings matching, evidence / replay
//! writers and the three-valued verdict (DESIGN.md §2.5 – §2.7).

use serde_json::{json, Map, Value};
use std::collections::{BTreeMap, HashSet};
use std::sync::atomic::{AtomicU64, Ordering};
use std::sync::Mutex;
use std::time::Instant;

#[derive(Clone, Copy, Debug, PartialEq, Eq)]
pub enum Tier {
    Quick,
    Thorough,
}
impl Tier {
    pub fn name(self) -> &'static str {
        match self {
            Tier::Quick => "quick",
            Tier::Thorough => "thorough",
        }
    }
}

#[derive(Clone, Debug)]
pub struct Ctx {
    pub property: String,
    pub seed: u64,
    pub tier: Tier,
    pub threads: usize,
    /// Some(case) when replaying exactly one case
    pub only_case: Option<u64>,
    /// scale factor on case counts (VERIF_SCALE, default 1.0) for smoke runs
    pub scale: f64,
    pub verif_dir: String,
    /// Some((k, n)): this process is shard k of n and runs only cases i with i % n == k
    pub shard: Option<(u64, u64)>,
    /// where evidence/ and replays/ are written (VERIF_OUT, default = verif_dir)
    pub out_dir: String,
}

impl Ctx {
    pub fn cases(&self, quick: u64, thorough: u64) -> u64 {
        let n = match self.tier {
            Tier::Quick => quick,
            Tier::Thorough => thorough,
        };
        ((n as f64 * self.scale) as u64).max(1)
    }
}

#[derive(Clone, Debug)]
pub struct Violation {
    /// sub-check id inside the property's monitor
    pub subcheck: String,
    /// classifier of the failing input (profile / attack class / deviation)
    pub class: String,
    /// observed error text or panic file+message (never a line number)
    pub observed: String,
    pub case: u64,
    /// everything needed to understand and replay: inputs, history, expected vs got
    pub detail: Value,
}

impl Violation {
    pub fn signature(&self) -> String {
        format!("{} | {} | {}", self.subcheck, self.class, self.observed)
    }
}

#[derive(Default)]
pub struct Local {
    pub evals: u64,
    pub fingerprints: HashSet<u64>,
    pub counters: BTreeMap<String, u64>,
    pub samples: Vec<(u64, Value)>,
    pub violations: Vec<Violation>,
    pub violation_count: u64,
    pub internal_errors: Vec<String>,
    sig_seen: BTreeMap<String, u32>,
}

impl Local {
    pub fn count(&mut self, key: &str) {
        *self.counters.entry(key.to_string()).or_default() += 1;
    }
    pub fn add(&mut self, key: &str, n: u64) {
        *self.counters.entry(key.to_string()).or_default() += n;
    }
    pub fn max(&mut self, key: &str, n: u64) {
        let e = self.counters.entry(key.to_string()).or_default();
        if n > *e {
            *e = n;
        }
    }
    /// a distinct & non-trivial case (caller applies the property's rule)
    pub fn distinct(&mut self, fp: u64) {
        self.fingerprints.insert(fp);
    }
    pub fn sample(&mut self, case: u64, v: impl FnOnce() -> Value) {
        if self.samples.len() < 4 {
            self.samples.push((case, v()));
        }
    }
    pub fn violate(&mut self, v: Violation) {
        self.violation_count += 1;
        let n = self.sig_seen.entry(v.signature()).or_default();
        *n += 1;
        if *n <= 2 && self.violations.len() < 400 {
            self.violations.push(v);
        }
    }
    fn merge(&mut self, o: Local) {
        self.evals += o.evals;
        self.fingerprints.extend(o.fingerprints);
        let slowest_here = self.counters.get("max.case-wall-ms").copied().unwrap_or(0);
        let slowest_there = o.counters.get("max.case-wall-ms").copied().unwrap_or(0);
        for (k, v) in o.counters {
            if k == "max.case-wall-ms.case" {
                // (travels with its maximum)
                if slowest_there > slowest_here || !self.counters.contains_key(&k) {
                    self.counters.insert(k, v);
                }
            } else if k.starts_with("max.") {
                let e = self.counters.entry(k).or_default();
                if v > *e {
                    *e = v;
                }
            } else {
                *self.counters.entry(k).or_default() += v;
            }
        }
        self.samples.extend(o.samples);
        self.violation_count += o.violation_count;
        self.violations.extend(o.violations);
        self.internal_errors.extend(o.internal_errors);
    }
}

/// Run `n` cases on `ctx.threads` worker threads; case `i` must be a pure function of
/// (ctx.seed, i). Work is dealt in small chunks from an atomic counter.
/// Run one case; a panic of the harness's own code (never expected) must not take the whole
/// run down: it is recorded and turns the verdict into INCONCLUSIVE.
fn guarded_case<F: Fn(u64, &mut Local)>(f: &F, case: u64, l: &mut Local) {
    crate::logmon::for_case(case);
    let t_case = std::time::Instant::now();
    let r = std::panic::catch_unwind(std::panic::AssertUnwindSafe(|| f(case, l)));
    if r.is_err() {
        let site = crate::api::last_panic_site();
        l.count("harness.internal-panic");
        if l.internal_errors.len() < 5 {
            l.internal_errors.push(format!("case {case}: harness code panicked at {site}"));
        }
    }
    // the slowest case of the run (milliseconds, and which one): "max." counters are merged by maximum
    let ms = t_case.elapsed().as_millis() as u64;
    if ms > l.counters.get("max.case-wall-ms").copied().unwrap_or(0) {
        l.counters.insert("max.case-wall-ms".into(), ms);
        l.counters.insert("max.case-wall-ms.case".into(), case);
    }
}

pub fn run_cases<F>(ctx: &Ctx, n: u64, f: F) -> Local
where
    F: Fn(u64, &mut Local) + Sync,
{
    if let Some(c) = ctx.only_case {
        let mut l = Local::default();
        crate::api::begin_case();
        guarded_case(&f, c, &mut l);
        for (k, v) in crate::api::take_counts() {
            l.add(&k, v);
        }
        return l;
    }
    let next = AtomicU64::new(0);
    let merged = Mutex::new(Local::default());
    let log_before = crate::logmon::observed();
    let chunk = (n / (ctx.threads as u64 * 16)).clamp(1, 64);
    std::thread::scope(|s| {
        for _ in 0..ctx.threads {
            s.spawn(|| {
                let mut l = Local::default();
                loop {
                    let start = next.fetch_add(chunk, Ordering::Relaxed);
                    if start >= n {
                        break;
                    }
                    for case in start..(start + chunk).min(n) {
                        if let Some((k, m)) = ctx.shard {
                            if case % m != k {
                                continue;
                            }
                        }
                        crate::api::begin_case();
                        guarded_case(&f, case, &mut l);
                    }
                }
                for (k, v) in crate::api::take_counts() {
                    l.add(&k, v);
                }
                merged.lock().unwrap().merge(l);
            });
        }
    });
    let mut l = merged.into_inner().unwrap();
    let log_after = crate::logmon::observed();
    l.add("log.records-formatted-in-cases-with-a-logger", log_after.0 - log_before.0);
    l.samples.sort_by_key(|(c, _)| *c);
    l.samples.truncate(4);
    l.violations.sort_by_key(|v| v.case);
    l
}

impl Local {
    pub fn to_json(&self) -> Value {
        json!({
            "evals": self.evals,
            "fingerprints": self.fingerprints.iter().collect::<Vec<_>>(),
            "counters": self.counters,
            "samples": self.samples.iter().map(|(c, v)| json!([c, v])).collect::<Vec<_>>(),
            "violation_count": self.violation_count,
            "internal_errors": self.internal_errors,
            "violations": self.violations.iter().map(|v| json!({"subcheck": v.subcheck, "class": v.class, "observed": v.observed, "case": v.case, "detail": v.detail})).collect::<Vec<_>>(),
        })
    }
    pub fn from_json(v: &Value) -> Local {
        let mut l = Local::default();
        l.evals = v["evals"].as_u64().unwrap_or(0);
        for f in v["fingerprints"].as_array().cloned().unwrap_or_default() {
            if let Some(x) = f.as_u64() {
                l.fingerprints.insert(x);
            }
        }
        if let Some(c) = v["counters"].as_object() {
            for (k, x) in c {
                l.counters.insert(k.clone(), x.as_u64().unwrap_or(0));
            }
        }
        for s in v["samples"].as_array().cloned().unwrap_or_default() {
            l.samples.push((s[0].as_u64().unwrap_or(0), s[1].clone()));
        }
        l.violation_count = v["violation_count"].as_u64().unwrap_or(0);
        for e in v["internal_errors"].as_array().cloned().unwrap_or_default() {
            l.internal_errors.push(e.as_str().unwrap_or("").to_string());
        }
        for x in v["violations"].as_array().cloned().unwrap_or_default() {
            l.violations.push(Violation {
                subcheck: x["subcheck"].as_str().unwrap_or("").into(),
                class: x["class"].as_str().unwrap_or("").into(),
                observed: x["observed"].as_str().unwrap_or("").into(),
                case: x["case"].as_u64().unwrap_or(0),
                detail: x["detail"].clone(),
            });
        }
        l
    }
    pub fn absorb(&mut self, o: Local) {
        self.merge(o);
    }
}

/// How a shard (child process) ended.
#[derive(Debug, Clone)]
pub struct ShardEnd {
    pub shard: u64,
    pub ok: bool,
    /// exit code, or None if killed by a signal
    pub code: Option<i32>,
    pub signal: Option<i32>,
    pub stderr_tail: String,
    pub log_path: String,
}

/// Run this very monitor in `nshards` child processes (each with `threads` worker threads) and
/// merge their partial results. Children get VERIF_SHARD=k/n, VERIF_PARTIAL=<file> and
/// VERIF_LEG=<tag>. `prefix` is the command to run (program + leading arguments, e.g. valgrind
/// and its options followed by the executable); empty = this executable. A wall-clock watchdog
/// kills children after `timeout_s`; that is reported as an abnormal end (inconclusive), never
/// as a violation.
pub fn run_sharded_with(ctx: &Ctx, nshards: u64, threads: usize, prefix: &[String], extra_env: &[(String, String)], tag: &str, timeout_s: u64) -> (Local, Vec<ShardEnd>) {
    use std::os::unix::process::ExitStatusExt;
    let me = std::env::current_exe().unwrap().to_string_lossy().to_string();
    let (prog, lead): (String, Vec<String>) = if prefix.is_empty() { (me, vec![]) } else { (prefix[0].clone(), prefix[1..].to_vec()) };
    let dir = format!("{}/.partials", ctx.out_dir);
    let _ = std::fs::create_dir_all(&dir);
    let mut children = vec![];
    for k in 0..nshards {
        let base = format!("{dir}/{}-{tag}-{}-{k}", ctx.property, std::process::id());
        let partial = format!("{base}.json");
        let wal = format!("{base}.wal");
        let errf = format!("{base}.stderr");
        let _ = std::fs::remove_file(&partial);
        let mut cmd = std::process::Command::new(&prog);
        cmd.args(&lead)
            .args([ctx.property.as_str(), ctx.tier.name()])
            .env("VERIF_SEED", ctx.seed.to_string())
            .env("VERIF_SHARD", format!("{k}/{nshards}"))
            .env("VERIF_THREADS", threads.to_string())
            .env("VERIF_SCALE", ctx.scale.to_string())
            .env("VERIF_PARTIAL", &partial)
            .env("VERIF_WAL", &wal)
            .env("VERIF_LEG", tag)
            .stdout(std::process::Stdio::null());
        match std::fs::File::create(&errf) {
            Ok(f) => {
                cmd.stderr(std::process::Stdio::from(f));
            }
            Err(_) => {
                cmd.stderr(std::process::Stdio::null());
            }
        }
        for (a, b) in extra_env {
            cmd.env(a, b);
        }
        children.push((k, partial, wal, errf, cmd.spawn().ok()));
    }
    let deadline = Instant::now() + std::time::Duration::from_secs(timeout_s);
    let mut merged = Local::default();
    let mut ends = vec![];
    for (k, partial, wal, errf, child) in children {
        let (code, signal, timed_out) = match child {
            None => (Some(127), None, false),
            Some(mut c) => loop {
                match c.try_wait() {
                    Ok(Some(st)) => break (st.code(), st.signal(), false),
                    Ok(None) => {
                        if Instant::now() > deadline {
                            let _ = c.kill();
                            let _ = c.wait();
                            break (None, None, true);
                        }
                        std::thread::sleep(std::time::Duration::from_millis(20));
                    }
                    Err(_) => break (Some(126), None, false),
                }
            },
        };
        let t = std::fs::read_to_string(&errf).unwrap_or_default();
        let mut tail: String = t.chars().rev().take(6000).collect::<String>().chars().rev().collect();
        if timed_out {
            tail = format!("WATCHDOG: killed after {timeout_s} s. {tail}");
        }
        let _ = std::fs::remove_file(&errf);
        let mut ok = code == Some(0);
        match std::fs::read_to_string(&partial).ok().and_then(|t| serde_json::from_str::<Value>(&t).ok()) {
            Some(v) => merged.merge(Local::from_json(&v)),
            None => ok = false,
        }
        let _ = std::fs::remove_file(&partial);
        ends.push(ShardEnd { shard: k, ok, code, signal, stderr_tail: tail, log_path: wal });
    }
    merged.samples.sort_by_key(|(c, _)| *c);
    merged.samples.truncate(4);
    merged.violations.sort_by_key(|v| v.case);
    (merged, ends)
}

pub fn run_sharded(ctx: &Ctx, nshards: u64, threads: usize, _exe: Option<&str>, extra_env: &[(String, String)], tag: &str) -> (Local, Vec<ShardEnd>) {
    // generous multiples of the normal run time (quick ~5 s, thorough ~2-3 min)
    let timeout = if ctx.tier == Tier::Quick { 240 } else { 1800 };
    run_sharded_with(ctx, nshards, threads, &[], extra_env, tag, timeout)
}

pub struct Report {
    pub level: &'static str,
    pub rule: String,
    pub local: Local,
    /// (counter key, minimum) — coverage floors; unmet => INCONCLUSIVE
    pub floors: Vec<(String, u64)>,
    pub assumptions: Vec<String>,
    /// extra "observed" entries (sanitizer legs etc.)
    pub extra: Map<String, Value>,
    pub inconclusive: Vec<String>,
}

impl Report {
    pub fn new(level: &'static str, rule: &str, local: Local) -> Report {
        Report {
            level,
            rule: rule.to_string(),
            local,
            floors: vec![],
            assumptions: vec![],
            extra: Map::new(),
            inconclusive: vec![],
        }
    }
    pub fn floor(&mut self, key: &str, min: u64) {
        self.floors.push((key.to_string(), min));
    }
    pub fn merge_local(&mut self, o: Local) {
        self.local.merge(o);
    }
}

#[derive(Debug)]
struct KnownFinding {
    property: String,
    signature: String,
    what: String,
}

fn load_known(ctx: &Ctx) -> Vec<KnownFinding> {
    let path = format!("{}/known_findings.json", ctx.verif_dir);
    let text = match std::fs::read_to_string(&path) {
        Ok(t) => t,
        Err(_) => return vec![],
    };
    let v: Value = match serde_json::from_str(&text) {
        Ok(v) => v,
        Err(_) => return vec![],
    };
    let mut out = vec![];
    for f in v["findings"].as_array().cloned().unwrap_or_default() {
        if f["status"] == "known" {
            out.push(KnownFinding {
                property: f["property"].as_str().unwrap_or("").to_string(),
                signature: f["signature"].as_str().unwrap_or("").to_string(),
                what: f["what"].as_str().unwrap_or("").to_string(),
            });
        }
    }
    out
}

/// Finish a run: print the verdict lines, write evidence and replays, return the exit code.
pub fn finish(ctx: &Ctx, mut rep: Report, t0: Instant) -> i32 {
    let id = &ctx.property;
    let known = load_known(ctx);
    let mut new_violations: Vec<&Violation> = vec![];
    let mut known_hit: BTreeMap<String, (String, u64)> = BTreeMap::new();
    for v in &rep.local.violations {
        let sig = v.signature();
        if let Some(k) = known.iter().find(|k| &k.property == id && k.signature == sig) {
            known_hit.entry(sig).or_insert((k.what.clone(), 0)).1 += 1;
        } else {
            new_violations.push(v);
        }
    }
    for (sig, (what, _)) in &known_hit {
        println!("KNOWN-FINDING: property={id} {what} [{sig}]");
    }

    for e in rep.local.internal_errors.iter().take(5) {
        rep.inconclusive.push(format!("harness error: {e}"));
    }
    // floors
    for (k, min) in &rep.floors {
        let got = rep.local.counters.get(k).copied().unwrap_or(0);
        if got < *min && ctx.only_case.is_none() {
            rep.inconclusive
                .push(format!("coverage floor not met: {k}={got} < {min}"));
        }
    }

    let mut exit = 0;
    if !new_violations.is_empty() {
        exit = 1;
        let dir = format!("{}/replays/{}", ctx.out_dir, id);
        let _ = std::fs::create_dir_all(&dir);
        let mut printed: HashSet<String> = HashSet::new();
        for v in &new_violations {
            let sig = v.signature();
            if !printed.insert(sig.clone()) || printed.len() > 12 {
                continue;
            }
            let path = format!("{dir}/{}-{}-{}.json", ctx.seed, v.case, printed.len());
            let body = json!({
                "property": id, "seed": ctx.seed, "tier": ctx.tier.name(), "case": v.case,
                "subcheck": v.subcheck, "class": v.class, "observed": v.observed,
                "signature": sig, "detail": v.detail,
                "replay": format!("./check {id} --replay {path}"),
            });
            let _ = std::fs::write(&path, serde_json::to_string_pretty(&body).unwrap());
            println!("VIOLATION property={id} replay={path}");
            println!("  signature: {sig}");
        }
    } else if !rep.inconclusive.is_empty() {
        exit = 2;
        for r in &rep.inconclusive {
            println!("INCONCLUSIVE property={id} reason={r}");
        }
    }

    // evidence
    let unlisted = new_violations.len() as u64;
    let mut observed = Map::new();
    for (k, v) in &rep.local.counters {
        observed.insert(k.clone(), json!(v));
    }
    for (k, v) in rep.extra.iter() {
        observed.insert(k.clone(), v.clone());
    }
    let samples: Vec<Value> = rep.local.samples.iter().map(|(c, v)| json!({"case": c, "input": v})).collect();
    let verdict = match exit {
        0 => "held-on-what-was-observed",
        1 => "violated",
        _ => "inconclusive",
    };
    let ev = json!({
        "property_id": id,
        "tier": ctx.tier.name(),
        "seed": ctx.seed,
        "level": rep.level,
        "coverage": {
            "evaluations": rep.local.evals,
            "distinct_nontrivial": rep.local.fingerprints.len(),
            "rule": rep.rule,
            "samples": samples,
            "observed": observed,
            "exhaustive": false,
        },
        "assumptions": rep.assumptions,
        "wall_s": (t0.elapsed().as_secs_f64() * 100.0).round() / 100.0,
        "violations": unlisted,
        "verdict": verdict,
        "violation_events_total": rep.local.violation_count,
        "known_findings_hit": known_hit.iter().map(|(s,(w,n))| json!({"signature": s, "what": w, "events": n})).collect::<Vec<_>>(),
        "inconclusive_reasons": rep.inconclusive,
        "threads": ctx.threads,
    });
    if ctx.only_case.is_none() {
        let dir = format!("{}/evidence", ctx.out_dir);
        let _ = std::fs::create_dir_all(&dir);
        let path = format!("{dir}/{id}.json");
        if let Err(e) = std::fs::write(&path, serde_json::to_string_pretty(&ev).unwrap()) {
            println!("INCONCLUSIVE property={id} reason=cannot write evidence: {e}");
            if exit == 0 {
                exit = 2;
            }
        }
    }
    println!(
        "{id} {} seed={} verdict={verdict} evaluations={} distinct_nontrivial={} violations_unlisted={} known_hits={} wall={:.1}s",
        ctx.tier.name(),
        ctx.seed,
        rep.local.evals,
        rep.local.fingerprints.len(),
        unlisted,
        known_hit.len(),
        t0.elapsed().as_secs_f64()
    );
    exit
}
