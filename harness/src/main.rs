#![allow(dead_code)]
//! sdjwt-mon — runtime monitors for sd-jwt-rs, one sub-command per property (DESIGN.md §2).
//!
//!   sdjwt-mon <Cxx> <quick|thorough> [--replay <file>] [--case <n>]
//!
//! Environment: VERIF_SEED (default 1), VERIF_THREADS (default 16), VERIF_SCALE (default 1.0),
//! VERIF_DIR (default /verif).
//! Exit: 0 held on everything observed; 1 VIOLATION; 2 INCONCLUSIVE.

mod api;
mod evidence;
mod gen;
mod keys;
mod legs;
mod logmon;
mod model;
mod mon;
mod pipeline;
mod rng;
mod tamper;

use evidence::{Ctx, Tier};
use std::time::Instant;

fn main() {
    logmon::install();
    let args: Vec<String> = std::env::args().collect();
    if args.len() < 3 {
        eprintln!("usage: sdjwt-mon <Cxx> <quick|thorough> [--replay <file>] [--case <n>]");
        std::process::exit(2);
    }
    let property = args[1].clone();
    if property == "C07-miri-seeds" {
        api::install_panic_hook();
        std::process::exit(if mon::c07::write_miri_seeds(&args[2]) { 0 } else { 1 });
    }
    if property == "C07-miri" {
        api::install_panic_hook();
        mon::c07::miri_main(&args);
        return;
    }
    if property == "HISTORY" {
        api::install_panic_hook();
        mon::history::child(args[2].parse().unwrap_or(0));
        return;
    }
    if property == "C14-vclock" {
        // child of C14's clock-jump leg (runs under LD_PRELOAD=shim/libvclock.so with an offset file)
        api::install_panic_hook();
        mon::c14::clock_jump_child(args[2].parse().unwrap_or(1), &args[3]);
        return;
    }
    if property == "C09-vclock-history" {
        api::install_panic_hook();
        mon::c09::vclock_history_child(args[2].parse().expect("base timestamp"), &args[3]);
        return;
    }
    if property == "C09-vclock" {
        // child of the virtual-clock leg (runs under LD_PRELOAD=shim/libvclock.so)
        api::install_panic_hook();
        mon::c09::vclock_child(args[2].parse().expect("base timestamp"));
        return;
    }
    let mut tier = match args[2].as_str() {
        "quick" => Tier::Quick,
        "thorough" => Tier::Thorough,
        other => {
            eprintln!("unknown tier {other}");
            std::process::exit(2);
        }
    };
    let mut seed: u64 = std::env::var("VERIF_SEED")
        .ok()
        .and_then(|s| s.trim().parse::<i64>().ok())
        .map(|x| x as u64)
        .unwrap_or(1);
    let mut only_case = None;
    let mut i = 3;
    while i < args.len() {
        match args[i].as_str() {
            "--replay" => {
                let path = &args[i + 1];
                let text = std::fs::read_to_string(path).unwrap_or_else(|e| {
                    println!("INCONCLUSIVE property={property} reason=cannot read replay file {path}: {e}");
                    std::process::exit(2);
                });
                let v: serde_json::Value = serde_json::from_str(&text).expect("replay file is JSON");
                seed = v["seed"].as_u64().unwrap_or(seed);
                only_case = v["case"].as_u64();
                tier = if v["tier"] == "thorough" {
                    Tier::Thorough
                } else {
                    Tier::Quick
                };
                i += 2;
            }
            "--case" => {
                only_case = args[i + 1].parse().ok();
                i += 2;
            }
            _ => i += 1,
        }
    }
    let threads = std::env::var("VERIF_THREADS")
        .ok()
        .and_then(|s| s.parse().ok())
        .unwrap_or(16usize)
        .max(1);
    let scale = std::env::var("VERIF_SCALE")
        .ok()
        .and_then(|s| s.parse().ok())
        .unwrap_or(1.0f64);
    let verif_dir = std::env::var("VERIF_DIR").unwrap_or_else(|_| "/verif".into());
    let ctx = Ctx {
        property: property.clone(),
        seed,
        tier,
        threads,
        only_case,
        scale,
        shard: std::env::var("VERIF_SHARD").ok().and_then(|s| {
            let (a, b) = s.split_once('/')?;
            Some((a.parse().ok()?, b.parse().ok()?))
        }),
        out_dir: std::env::var("VERIF_OUT").unwrap_or_else(|_| verif_dir.clone()),
        verif_dir,
    };
    api::install_panic_hook();
    let t0 = Instant::now();
    // whole-run watchdog: a library call that never returns (in a monitor without a per-case
    // watchdog of its own) must not hang the check for ever. Its firing is INCONCLUSIVE — a wall
    // clock limit on a loaded machine is no verdict — and names the last API calls of every thread.
    if ctx.shard.is_none() && std::env::var("VERIF_PARTIAL").is_err() {
        let limit = std::env::var("VERIF_WATCHDOG_S").ok().and_then(|s| s.parse().ok()).unwrap_or(match (ctx.tier, ctx.only_case) {
            (_, Some(_)) => 1_800u64,
            (Tier::Quick, _) => 2_400,
            (Tier::Thorough, _) => 6 * 3_600,
        });
        let prop = property.clone();
        std::thread::spawn(move || {
            std::thread::sleep(std::time::Duration::from_secs(limit));
            println!("INCONCLUSIVE property={prop} reason=the run did not finish within {limit} s (a library call that does not return, or an overloaded machine); nothing is concluded");
            std::process::exit(2);
        });
    }
    let report = match mon::run(&ctx) {
        Some(r) => r,
        None => {
            println!("INCONCLUSIVE property={property} reason=no monitor with that id in this build");
            std::process::exit(2);
        }
    };
    let mut report = report;
    if ctx.tier == Tier::Thorough && ctx.only_case.is_none() && ctx.shard.is_none() && std::env::var("VERIF_LEG").is_err() && std::env::var("VERIF_PARTIAL").is_err() {
        legs::coverage_leg(&ctx, &mut report);
    }
    if let Ok(partial) = std::env::var("VERIF_PARTIAL") {
        // child of a sharded run: hand the accumulators to the parent, no verdict here
        let mut v = report.local.to_json();
        v["inconclusive"] = serde_json::json!(report.inconclusive);
        std::fs::write(&partial, v.to_string()).expect("write partial");
        return;
    }
    let code = evidence::finish(&ctx, report, t0);
    std::process::exit(code);
}
