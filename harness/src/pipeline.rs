//! Shared scenario enumeration and the issue -> decode -> locate helper used by several monitors.

use crate::api::{self, KbArgs, Outcome};
use crate::evidence::{Ctx, Tier};
use crate::gen::{self, GenCfg, Profile, SelKind, StratKind, Strategy, PROFILES, STRAT_KINDS};
use crate::keys::{self, Alg, ALL_ALGS};
use crate::model::{self, DecodedDisclosure, Fmt, Located, Parts};
use crate::rng::Rng;
use serde_json::{json, Value};
use std::collections::HashMap;

/// One point of the configuration space of C01: enumerated round-robin from the case index so
/// that all 36 configurations x 6 strategy kinds occur with every profile.
#[derive(Clone, Debug)]
pub struct Config {
    pub profile: Profile,
    pub strat: StratKind,
    pub fmt: Fmt,
    pub alg: Alg,
    pub decoys: bool,
    /// holder key bound into the credential
    pub holder: Option<(Alg, usize)>,
}

impl Config {
    pub fn from_index(i: u64) -> Config {
        let np = PROFILES.len() as u64;
        let profile = PROFILES[(i % np) as usize];
        let strat = STRAT_KINDS[((i / np) % 6) as usize];
        let c = (i / (np * 6)) % 36;
        let fmt = if c % 2 == 0 { Fmt::Compact } else { Fmt::Json };
        let alg = ALL_ALGS[((c / 2) % 3) as usize];
        let decoys = (c / 6) % 2 == 1;
        let holder = match (c / 12) % 3 {
            0 => None,
            1 => Some((Alg::ES256, 0)),
            _ => Some((Alg::EdDSA, 0)),
        };
        Config {
            profile,
            strat,
            fmt,
            alg,
            decoys,
            holder,
        }
    }
    pub fn bits(&self) -> u64 {
        let h = match self.holder {
            None => 0,
            Some((Alg::ES256, _)) => 1,
            _ => 2,
        };
        (self.fmt as u64) | ((self.alg as u64) << 1) | ((self.decoys as u64) << 3) | (h << 4) | ((self.strat as u64) << 6)
    }
    pub fn describe(&self) -> Value {
        json!({"profile": self.profile.name(), "strategy": self.strat.name(), "format": self.fmt.name(),
               "alg": self.alg.name(), "decoys": self.decoys,
               "holder_key": self.holder.map(|(a, i)| format!("{}#{i}", a.name()))})
    }
}

pub fn node_budget(ctx: &Ctx, r: &mut Rng) -> i32 {
    match ctx.tier {
        Tier::Quick => *r.pick(&[6, 15, 40]),
        Tier::Thorough => *r.pick(&[6, 15, 40, 80, 150]),
    }
}

pub fn pick_sel_kind(r: &mut Rng) -> SelKind {
    match r.below(100) {
        0..=9 => SelKind::Nothing,
        10..=24 => SelKind::Everything,
        25..=59 => SelKind::Random,
        60..=74 => SelKind::RandomSparse,
        _ => SelKind::RandomDense,
    }
}

pub fn random_selection(r: &mut Rng, u: &Value) -> Value {
    let k = pick_sel_kind(r);
    let sel = gen::gen_selection(r, u, k);
    if r.chance(30) {
        // a selection is a set of names: the order in which the holder lists them (here: shuffled
        // at every level) is not the order in which the issuer issued them
        fn shuffle(r: &mut Rng, v: &Value) -> Value {
            match v {
                Value::Object(m) => {
                    let mut es: Vec<(String, Value)> = m.iter().map(|(k, v)| (k.clone(), shuffle(r, v))).collect();
                    r.shuffle(&mut es);
                    Value::Object(es.into_iter().collect())
                }
                Value::Array(a) => Value::Array(a.iter().map(|x| shuffle(r, x)).collect()),
                x => x.clone(),
            }
        }
        return shuffle(r, &sel);
    }
    sel
}

/// aud / nonce strings incl. empty, Unicode, '~', '.', and 1 KB values
pub fn gen_aud_nonce(r: &mut Rng) -> (String, String) {
    fn one(r: &mut Rng) -> String {
        match r.below(17) {
            0 => String::new(),
            // texts that are JSON literals (a verifier comparing "as text" would confuse them with
            // non-string claim values), and URL-shaped audiences with / without a trailing slash
            10 => (*r.pick(&["null", "true", "false", "20240131", "0", "-1", "1.0", "[1]", "{}", "[]", "\"n\""])).to_string(),
            // values with a well-known SHAPE (UUIDs in either case, urn:uuid, 32 hex digits, ULID-like, a compact
            // JWT): compared as opaque strings all the same
            14 => {
                let (a, b) = (r.next(), r.next());
                let uuid = format!("{:08x}-{:04x}-4{:03x}-a{:03x}-{:012x}", a >> 32, (a >> 16) & 0xffff, a & 0xfff, b >> 52, b & 0xffff_ffff_ffff);
                match r.below(6) {
                    0 => uuid,
                    1 => uuid.to_uppercase(),
                    2 => format!("urn:uuid:{uuid}"),
                    3 => format!("{a:016x}{b:016X}"),
                    4 => format!("01HZX{:021}", (a % 1_000_000_007).to_string() + "ABCDEFGHJKMNPQ").chars().take(26).collect(),
                    _ => "eyJhbGciOiJub25lIn0.eyJub25jZSI6MX0.".to_string(),
                }
            }
            13 if r.chance(50) => crate::tamper::boundary_text(r),
            // "scheme://" audiences whose scheme part is not an RFC 3986 scheme: an audience is an opaque
            // string, not a URI to be validated
            13 => (*r.pick(&["my_wallet://present", "com.example_app://verifier", "1password://rp", "://x", "see https://verifier.example", "https://", "urn:", "a b://c", "\u{e9}://x", "HTTPS://V.EXAMPLE"])).to_string(),
            11 => (*r.pick(&["https://rp.example.org", "https://rp.example.org/", "https://RP.example.org/cb", "https://rp.example.org:443/cb?x=1#f", "/", "//"])).to_string(),
            // texts that are JSON arrays of strings (not a multi-valued audience: ONE string), and
            // base64-looking values with and without '=' padding
            12 => (*r.pick(&["[\"https://verifier-a.example\",\"https://verifier-b.example\"]", "[\"a\"]", "[\"\"]", "3q2+7w==", "3q2+7w", "q83vEjRWeJA=", "==", "="])).to_string(),
            1 => "https://verifier.example/é😀中".into(),
            2 => "a~b~c".into(),
            3 => "x.y.z".into(),
            4 => {
                let mut s = String::new();
                let want = *r.pick(&[1024usize, 1024, 1024, 3200, 5000]);
                while s.len() < want {
                    s.push_str(&format!("{:x}", r.next()));
                }
                s
            }
            5 => " ".into(),
            6 => "\"quoted\\\"".into(),
            _ => format!("v-{:x}", r.next()),
        }
    }
    (one(r), one(r))
}

pub fn kb_args_for(r: &mut Rng, holder: (Alg, usize)) -> KbArgs {
    let (aud, nonce) = gen_aud_nonce(r);
    KbArgs {
        nonce,
        aud,
        alg: holder.0,
        key_idx: holder.1,
        explicit_alg: r.chance(50),
    }
}

/// A generated credential scenario (inputs only).
pub struct Scenario {
    pub cfg: Config,
    pub u: Value,
    pub strat: Strategy,
    pub explicit_alg: bool,
}

pub fn gen_scenario(ctx: &Ctx, r: &mut Rng, cfg: Config) -> Scenario {
    let budget = node_budget(ctx, r);
    let mut g = GenCfg::new(cfg.profile, budget, api::now());
    g.safe_names = cfg.strat.is_custom();
    if r.chance(12) {
        // iss is any string: host:port, free text with a colon, URNs with blanks, empty, non-ASCII
        g.iss = (*r.pick(&["127.0.0.1:8443", "Example Issuer: production", "urn:example:issuer 7", "", "issuer", "a:b", ":x", "https://issuer.example/\u{e9}\u{1f600}", "did:web:issuer.example", "mailto:ca@example.org", "ISSUER", " "])).to_string();
    }
    let mut u = gen::gen_claims(r, &g);
    if cfg.holder.is_none() && r.chance(6) {
        // without a bound holder key `cnf` is an ordinary user claim of any JSON type
        let v = r.pick(&[json!("conf"), json!(7), json!(null), json!(true), json!(["a", 1]), json!({"kid": "x"}), json!({"jwk": {"kty": "oct"}}), json!(1.5)]).clone();
        u["cnf"] = v;
    }
    if r.below(600) == 0 && !matches!(std::env::var("VERIF_LEG").as_deref(), Ok("miri") | Ok("valgrind")) {
        // now and then a credential with more than a thousand hideable array elements (hard caps on
        // the number of '~'-separated parts, small counters): sizes are not bounded by the properties
        let n = *r.pick(&[1022usize, 1023, 1024, 1025, 1100, 2050]);
        if r.chance(25) {
            // ... or a few thousand small OBJECTS (each gets decoys when those are on: > 4096 digests)
            u["roster#99990;"] = Value::Array((0..2 * n).map(|i| json!({"i": i % 7})).collect());
        } else {
            u["roster#99990;"] = Value::Array((0..n).map(|i| json!(i % 7)).collect());
        }
    }
    let strat = gen::gen_strategy(r, &u, cfg.strat);
    Scenario {
        cfg,
        u,
        strat,
        explicit_alg: r.chance(50),
    }
}

/// An issued credential decoded by the harness's own decoder and located against the model.
pub struct Issued {
    pub sd_jwt: String,
    pub parts: Parts,
    pub payload_text: String,
    pub payload: Value,
    pub by: HashMap<String, DecodedDisclosure>,
    pub loc: Located,
}

#[derive(Debug)]
pub enum IssueFail {
    /// the library call itself failed
    Call(Outcome<String>),
    /// the returned string does not follow the format grammar / cannot be decoded
    Decode(String),
}

pub fn issue_scenario(s: &Scenario) -> Result<Issued, IssueFail> {
    let mut issuer = api::new_issuer(s.cfg.alg, 0, s.explicit_alg);
    issue_with(&mut issuer, &s.u, &s.strat, s.cfg.holder, s.cfg.decoys, s.cfg.fmt)
}

pub fn issue_with(
    issuer: &mut sd_jwt_rs::SDJWTIssuer,
    u: &Value,
    strat: &Strategy,
    holder: Option<(Alg, usize)>,
    decoys: bool,
    fmt: Fmt,
) -> Result<Issued, IssueFail> {
    let out = api::issue(issuer, u, strat, holder, decoys, fmt);
    let sd_jwt = match out {
        Outcome::Ok(s) => s,
        other => return Err(IssueFail::Call(other)),
    };
    decode_issued(sd_jwt, u, strat, holder, Some(decoys), fmt)
}

pub fn decode_issued(
    sd_jwt: String,
    u: &Value,
    strat: &Strategy,
    holder: Option<(Alg, usize)>,
    decoys: Option<bool>,
    fmt: Fmt,
) -> Result<Issued, IssueFail> {
    let parts = Parts::parse(fmt, &sd_jwt).map_err(IssueFail::Decode)?;
    if fmt == Fmt::Compact && !sd_jwt.ends_with('~') {
        return Err(IssueFail::Decode("issued compact SD-JWT does not end with '~'".into()));
    }
    if parts.kb.is_some() {
        return Err(IssueFail::Decode("issued SD-JWT carries a key-binding JWT".into()));
    }
    if parts.jwt.split('.').count() != 3 {
        return Err(IssueFail::Decode("issuer-signed JWT is not three segments".into()));
    }
    let payload_text = parts.payload_text().map_err(IssueFail::Decode)?;
    let payload: Value = serde_json::from_str(&payload_text).map_err(|e| IssueFail::Decode(e.to_string()))?;
    let by = model::decode_disclosures(&parts.disclosures)
        .map_err(|c| IssueFail::Decode(format!("{}: {}", c.kind, c.detail)))?;
    let jwk = holder.map(|(a, i)| keys::holder_jwk_json_canonical(a, i));
    let loc = model::locate(u, &payload, &by, &strat.sd, decoys, jwk.as_ref());
    Ok(Issued {
        sd_jwt,
        parts,
        payload_text,
        payload,
        by,
        loc,
    })
}
