//! Generators: claim trees (stratified by profile), strategies, selections (DESIGN.md §3.1, §3.2).

use crate::rng::Rng;
use serde_json::{json, Map, Value};
use std::collections::BTreeSet;

#[derive(Clone, Debug, PartialEq, Eq, PartialOrd, Ord, Hash)]
pub enum Step {
    K(String),
    I(usize),
}
pub type Path = Vec<Step>;

pub fn path_str(p: &Path) -> String {
    let mut s = String::from("$");
    for st in p {
        match st {
            Step::K(k) => {
                s.push('.');
                s.push_str(k);
            }
            Step::I(i) => s.push_str(&format!("[{i}]")),
        }
    }
    s
}

#[derive(Clone, Copy, Debug, PartialEq, Eq, Hash, PartialOrd, Ord)]
pub enum Profile {
    Flat,
    DeepObjects,
    ArraysOfArrays,
    ObjectsInArrays,
    EmptyContainers,
    FalsyLeaves,
    UnicodeBmp,
    UnicodeNonBmp,
    MetacharStrings,
    NumbersExtreme,
    NumbersF64Random,
    Wide,
    Mixed,
    /// counts and lengths at powers of two +-1 (members, elements, string bytes)
    Boundary,
}

pub const PROFILES: [Profile; 14] = [
    Profile::Flat,
    Profile::DeepObjects,
    Profile::ArraysOfArrays,
    Profile::ObjectsInArrays,
    Profile::EmptyContainers,
    Profile::FalsyLeaves,
    Profile::UnicodeBmp,
    Profile::UnicodeNonBmp,
    Profile::MetacharStrings,
    Profile::NumbersExtreme,
    Profile::NumbersF64Random,
    Profile::Wide,
    Profile::Mixed,
    Profile::Boundary,
];

impl Profile {
    pub fn name(self) -> &'static str {
        match self {
            Profile::Flat => "flat",
            Profile::DeepObjects => "deep-objects",
            Profile::ArraysOfArrays => "arrays-of-arrays",
            Profile::ObjectsInArrays => "objects-in-arrays",
            Profile::EmptyContainers => "empty-containers",
            Profile::FalsyLeaves => "falsy-leaves",
            Profile::UnicodeBmp => "unicode-bmp",
            Profile::UnicodeNonBmp => "unicode-nonbmp",
            Profile::MetacharStrings => "metachar-strings",
            Profile::NumbersExtreme => "numbers-extreme",
            Profile::NumbersF64Random => "numbers-f64-random",
            Profile::Wide => "wide",
            Profile::Mixed => "mixed",
            Profile::Boundary => "boundary",
        }
    }
}

#[derive(Clone, Debug)]
pub struct GenCfg {
    pub profile: Profile,
    pub max_nodes: i32,
    /// Custom strategy: member names non-empty and free of '.' and '[' (paths unambiguous).
    pub safe_names: bool,
    /// prefix inside tags, e.g. "3." for call 3 of a history; tags look like `#3.17;`
    pub tag_prefix: String,
    pub iss: String,
    /// `exp` is drawn in [now+3600, 4102444800]
    pub now: u64,
}

impl GenCfg {
    pub fn new(profile: Profile, max_nodes: i32, now: u64) -> Self {
        GenCfg {
            profile,
            max_nodes,
            safe_names: false,
            tag_prefix: String::new(),
            iss: "https://issuer.example/A".into(),
            now,
        }
    }
}

const ASCII_WORD: &[char] = &['a', 'Z', '0', ' ', '_', '-', 'q', 'x'];
const META: &[char] = &[
    '"', '\\', ',', ':', '[', ']', '{', '}', '~', '.', '/', '\'', ' ', ' ',
];
const LATIN1: &[char] = &['é', 'ß', '\u{80}', '\u{ff}', '\u{7f}', '\u{a0}'];
const BMP: &[char] = &[
    '\u{f600}', '\u{d11e}', '\u{1}', 'ঀ', '⏰', '\u{ffff}', '\u{fffd}', '中', '\u{2028}', '\u{0800}', '\u{07ff}', '\u{d7ff}',
    '\u{e000}',
];
const NONBMP: &[char] = &['😀', '\u{10000}', '\u{10ffff}', '𝄞', '\u{1F9D1}', '\u{e0001}'];
const C0: &[char] = &['\u{0}', '\n', '\t', '\u{1f}', '\r', '\u{8}', '\u{c}'];

struct G<'a> {
    r: &'a mut Rng,
    cfg: &'a GenCfg,
    id: u32,
    budget: i32,
}

impl<'a> G<'a> {
    fn tag(&mut self) -> String {
        self.id += 1;
        format!("#{}{};", self.cfg.tag_prefix, self.id)
    }

    fn alphabet(&mut self) -> u64 {
        // which alphabet the next string draws from, biased by profile
        let p = self.cfg.profile;
        let forced = match p {
            Profile::UnicodeBmp => Some(3),
            Profile::UnicodeNonBmp => Some(4),
            Profile::MetacharStrings => Some(1),
            _ => None,
        };
        match forced {
            Some(k) if self.r.chance(70) => k,
            _ => self.r.below(8),
        }
    }

    fn string(&mut self, name: bool) -> String {
        if name && self.r.chance(3) {
            // untagged odd member names (duplicates simply overwrite): empty, blank, JSONPath-ish;
            // under Custom strategies only those free of '.' and '[' (a member called "$" is
            // addressed as "$.$", its child x as "$.$.x")
            if self.cfg.safe_names {
                return (*self.r.pick(&["", " ", "0", "$", "~", "$ref", "$id", "$$", "*", "-1", "{value}", "{name}", "{}", "%s", "1", "_sd_note", "_sdk_version", "_sdr", "kty", "ns~1v2", "rev~0", "a/b", "~0", "~1~0", "@context", "@type", "@id", "@"])).to_string();
            }
            return (*self.r.pick(&["", " ", "0", "$", "~", ".", "[0]", "a.b", "$.x", "$ref", "{value}", "{name}", "{salt}", "{0}", "%s", "$1", "1", "...etc", "....", "..", "_sd_note", "_sdk_version", "kty", "ns~1v2", "rev~0", "a/b", "~0", "~1~0", ".well-known", "@context", "@type", "@id"])).to_string();
        }
        if name && self.r.chance(3) {
            // names that only LOOK like reserved / registered ones (none of them is reserved)
            return (*self.r.pick(&[
                "_sd_x", "_sd_jwt_profile", "_sd_alg2", "_sdx", "_SD", "_Sd", "sd_hash", "_sd_", "cnfx", "jwk", "kb_jwt", "disclosures", "protected", "_links", "_embedded", "_", "__",
                "issuer", "issuing_country", "iss2", "expiry_date", "experience", "exp_", "iat_", "iata", "nbf2", "subject", "aud_x",
            ]))
            .to_string();
        }
        if self.cfg.profile == Profile::Boundary && self.r.chance(40) {
            // byte length exactly at / next to a power of two, built from 1-, 2-, 3- or 4-byte
            // characters, with one character of another width at a random place
            let mut target = *self.r.pick(&[0usize, 1, 2, 3, 15, 16, 17, 31, 32, 33, 63, 64, 65, 127, 128, 129, 255, 256, 257, 509, 510, 511, 512, 513, 1023, 1024, 1025, 4095, 4096, 4097]);
            if !name && self.r.chance(2) {
                // one value whose disclosure text is around / beyond 48 KiB .. 64 KiB
                target = *self.r.pick(&[49_000usize, 49_152, 65_535, 65_536, 65_537, 70_000]);
            }
            let base = *self.r.pick(&['a', 'é', '€', '😀']);
            let mut s = String::new();
            while s.len() + base.len_utf8() <= target {
                s.push(base);
            }
            while s.len() < target {
                s.push('a');
            }
            if !s.is_empty() && self.r.chance(50) {
                let odd = *self.r.pick(&['b', 'ß', '中', '𝄞']);
                let chars: Vec<char> = s.chars().collect();
                let at = self.r.usize(chars.len());
                s = chars.iter().enumerate().map(|(i, c)| if i == at { odd } else { *c }).collect();
            }
            if name && self.cfg.safe_names {
                s = s.replace(['.', '['], "_");
            }
            if name {
                let t = self.tag();
                s.push_str(&t);
            }
            return s;
        }
        let kind = self.alphabet();
        let n = match self.r.below(10) {
            0 => 0,
            9 => 6 + self.r.below(20),
            _ => 1 + self.r.below(5),
        };
        let mut s = String::new();
        for _ in 0..n {
            let ch = match kind {
                0 => *self.r.pick(ASCII_WORD),
                1 => *self.r.pick(META),
                2 => *self.r.pick(LATIN1),
                3 => *self.r.pick(BMP),
                4 => *self.r.pick(NONBMP),
                5 => *self.r.pick(C0),
                6 => {
                    // JSON look-alikes and runs of spaces (interesting for the mock-salt spacing)
                    let frag = *self.r.pick(&[
                        "\":", ":[", ", ", ",", "\": ", "  ", "[1,2]", "{\"a\":1}", "\\\"", "\\u0041",
                        "{value}", "{name}", "{salt}", "{}", "{0}", "%s", "%7E", "$1", "&amp;", "\\u{e9}", "\\u{41}", "\\u{1f600}", "\\x41", "\\ud83d",
                        "\\", ":  ",
                    ]);
                    s.push_str(frag);
                    continue;
                }
                _ => {
                    // random printable ASCII, never '#' (tag delimiter)
                    let c = char::from_u32(0x21 + self.r.below(94) as u32).unwrap();
                    if c == '#' {
                        '+'
                    } else {
                        c
                    }
                }
            };
            if name && self.cfg.safe_names && (ch == '.' || ch == '[') {
                s.push('_');
            } else if ch == '#' {
                s.push('+');
            } else {
                s.push(ch);
            }
        }
        if name && self.cfg.safe_names {
            s = s.replace(['.', '['], "_");
        }
        // names always carry a tag (unique => no duplicate names; also non-empty);
        // ~85% of string leaves do too
        if name || self.r.chance(85) {
            let t = self.tag();
            if self.r.chance(50) {
                s.push_str(&t);
            } else {
                s = format!("{t}{s}");
            }
        }
        s
    }

    fn number(&mut self) -> Value {
        let p = self.cfg.profile;
        let k = match p {
            Profile::NumbersExtreme => *self.r.pick(&[2u64, 3, 4, 8, 9, 2, 3]),
            Profile::NumbersF64Random => *self.r.pick(&[5u64, 5, 5, 6, 10]),
            Profile::FalsyLeaves => 0,
            _ => self.r.below(11),
        };
        match k {
            0 => json!(0),
            1 => json!(self.r.below(1000) as i64 - 500),
            2 => json!(u64::MAX),
            3 => json!(i64::MIN),
            4 => json!(self.r.next()),
            5 => {
                let f = f64::from_bits(self.r.next());
                if f.is_finite() {
                    json!(f)
                } else {
                    json!(1.5)
                }
            }
            6 => json!((self.r.below(100000) as f64) / 8.0),
            7 => json!(-0.25),
            8 => json!(i64::MAX),
            9 => json!(*self.r.pick(&[
                1.7976931348623157e308,
                5e-324,
                2.2250738585072014e-308,
                -1.7976931348623157e308,
                1e21,
                1e-7,
                0.1,
                123456789012345680000.0
            ])),
            _ => {
                if self.r.chance(50) {
                    json!(self.r.next() as i64)
                } else {
                    // magnitudes where integer / float / exponent formatting or precision changes
                    self.r.pick(&[
                        json!(9_007_199_254_740_991u64), json!(9_007_199_254_740_992u64), json!(9_007_199_254_740_993u64), json!(-9_007_199_254_740_993i64),
                        json!(9_223_372_036_854_775_807u64), json!(9_223_372_036_854_775_808u64), json!(123_456_789_012_345_678u64),
                        json!(1e15), json!(1e16), json!(1e17), json!(1.0e21), json!(1e22), json!(1e-5), json!(1e-6), json!(1e-7), json!(5.0), json!(100.0), json!(-0.0),
                        json!(4_294_967_295u64), json!(4_294_967_296u64), json!(2_147_483_648u64), json!(-2_147_483_649i64), json!(0.30000000000000004), json!(3.0e-310),
                    ]).clone()
                }
            }
        }
    }

    fn leaf(&mut self) -> Value {
        let p = self.cfg.profile;
        let k = match p {
            Profile::FalsyLeaves => *self.r.pick(&[10u64, 11, 12, 13, 14, 15, 0]),
            Profile::NumbersExtreme | Profile::NumbersF64Random => {
                if self.r.chance(70) {
                    1
                } else {
                    self.r.below(6)
                }
            }
            Profile::EmptyContainers => *self.r.pick(&[14u64, 15, 14, 15, 0, 1, 2]),
            _ => self.r.below(8),
        };
        match k {
            0 | 4 | 5 if self.r.chance(1) => {
                // a plain string that equals the digest of a (foreign) disclosure, or is itself a
                // compact JWT that expired long ago: data, not structure
                if self.r.chance(50) {
                    Value::String(crate::model::digest_of(&crate::model::evil_element_disclosure()))
                } else {
                    Value::String("eyJhbGciOiJub25lIn0.eyJleHAiOjE1MTYyMzkwMjIsImlzcyI6Im9sZCJ9.AAAA".into())
                }
            }
            0 | 4 | 5 => {
                if self.r.chance(6) {
                    // whole-string values that look like reserved words / syntax of the format
                    Value::String((*self.r.pick(&[
                        "...", "_sd", "_sd_alg", "sha-256", "cnf", "jwk", "kb+jwt", "sd_hash", "null", "true", "false", "0", "[]", "{}", "~", ".", "$", "$.a", "iss", "exp", "nbf", "iat", "aud", "sub",
                        "\"", "\\", "\\u0000", "e30", "W10", "eyJhbGciOiJub25lIn0", "a~b", "a.b.c", "=",
                        // JSON text that, if parsed, would contain reserved member names
                        "19\" rack, part 2e4", "27\" 7f3e8a21", "1e5\"2e4\"3E-2", "EC", "OKP",
                        // (runs of '?', '>' and '~': one of three consecutive ones ends a 3-octet group, so the
                        // disclosure's base64url text contains '_' or '-')
                        "why not???", "a>>>b", "~~~", "/~erika/public???", "https://example.com/a?x=1&y=???", ">?~>?~",
                        "{\"_sd\":[\"abc\"]}", "[{\"...\":\"x\"}]", "{\"...\":1,\"_sd_alg\":\"md5\"}", "[\"s\",\"_sd\",1]", "12345", "-7", "1e5",
                    ]))
                    .to_string())
                } else if self.r.chance(2) {
                    // multi-byte characters at every small byte offset, behind the usual marker characters
                    Value::String(crate::tamper::boundary_text(self.r))
                } else {
                    Value::String(self.string(false))
                }
            }
            1 => self.number(),
            2 => Value::Bool(self.r.chance(50)),
            3 => Value::Null,
            6 => Value::String(String::new()),
            7 => self.number(),
            10 => Value::Null,
            11 => Value::Bool(false),
            12 => json!(0),
            13 => Value::String(String::new()),
            14 => json!({}),
            _ => json!([]),
        }
    }

    fn value(&mut self, depth: u32) -> Value {
        self.budget -= 1;
        if depth == 0 || self.budget <= 0 {
            return self.leaf();
        }
        let p = self.cfg.profile;
        // container probabilities by profile: (object%, array%)
        let (po, pa) = match p {
            Profile::Flat => (5, 5),
            Profile::DeepObjects => (60, 5),
            Profile::ArraysOfArrays => (5, 65),
            Profile::ObjectsInArrays => (30, 40),
            Profile::EmptyContainers => (25, 25),
            Profile::Wide => (15, 15),
            _ => (22, 22),
        };
        let x = self.r.below(100);
        if x < po {
            self.object(depth - 1)
        } else if x < po + pa {
            self.array(depth - 1)
        } else {
            self.leaf()
        }
    }

    fn object(&mut self, depth: u32) -> Value {
        let n = match self.cfg.profile {
            Profile::Wide => 3 + self.r.below(8),
            Profile::EmptyContainers => self.r.below(3),
            Profile::DeepObjects => 1 + self.r.below(3),
            Profile::Boundary => *self.r.pick(&[0u64, 1, 2, 7, 8, 9, 15, 16, 17, 31, 32, 33]),
            _ => self.r.below(5),
        };
        let mut m = Map::new();
        for _ in 0..n {
            let mut name = self.string(true);
            if self.r.chance(4) {
                // nested members that merely share their name with a registered JWT claim are
                // ordinary claims (only the TOP-LEVEL iss / iat / exp are always visible)
                let reg = *self.r.pick(&["iss", "iat", "exp", "sub", "nbf", "aud", "cnf", "jti", "kty", "crv", "alg"]);
                if !m.contains_key(reg) {
                    name = reg.to_string();
                }
            }
            let v = self.value(depth);
            m.insert(name, v);
        }
        self.prefix_sibling(&mut m);
        self.escaped_twin(&mut m);
        self.hash_twin(&mut m);
        self.lookalike_sibling(&mut m);
        self.child_named_like_parent(&mut m);
        Value::Object(m)
    }

    /// Occasionally give an object-valued member a child that carries the member's own name
    /// ("profile": {"profile": ..}): a name is only meaningful at its own level.
    fn child_named_like_parent(&mut self, m: &mut Map<String, Value>) {
        if !self.r.chance(5) {
            return;
        }
        let keys: Vec<String> = m.iter().filter(|(_, v)| v.is_object()).map(|(k, _)| k.clone()).collect();
        if keys.is_empty() {
            return;
        }
        let k = self.r.pick(&keys).clone();
        let leaf = self.leaf();
        if let Some(Value::Object(o)) = m.get_mut(&k) {
            if !o.contains_key(&k) {
                o.insert(k.clone(), leaf);
            }
        }
    }

    /// Occasionally add a sibling whose name (or value) equals an existing one under some
    /// normalisation — case, trailing blank, Unicode composition, numeric type — but not exactly.
    fn lookalike_sibling(&mut self, m: &mut Map<String, Value>) {
        if !self.r.chance(6) || m.is_empty() {
            return;
        }
        let keys: Vec<String> = m.keys().cloned().collect();
        let k = self.r.pick(&keys).clone();
        let v = m.get(&k).cloned().unwrap_or(Value::Null);
        let twin = match self.r.below(6) {
            0 => k.to_uppercase(),
            1 => k.to_lowercase(),
            2 => format!("{k} "),
            3 => format!(" {k}"),
            4 => format!("{k}e\u{301}"),
            _ => format!("{k}\u{e9}"),
        };
        let reserved = ["_sd", "...", "_sd_alg", "cnf", "aud", "sub", "nbf", "iss", "exp", "iat"].contains(&twin.trim());
        if twin != k && !reserved && !m.contains_key(&twin) && !(self.cfg.safe_names && (twin.contains('.') || twin.contains('['))) {
            let tv = match (&v, self.r.below(4)) {
                (Value::Number(n), 0) if n.is_u64() => json!(n.as_u64().unwrap() as f64),
                (Value::Number(n), 1) => json!(n.to_string()),
                (Value::String(s), 0) => json!(format!("{s} ")),
                (Value::Null, _) => json!("null"),
                (Value::Bool(b), _) => json!(b.to_string()),
                _ => v.clone(),
            };
            m.insert(twin, tv);
        }
    }

    /// Occasionally add a sibling whose name is another sibling's name followed by the name of
    /// one of that sibling's children ("birth": {"date": ..} next to "birthdate"): names that are
    /// proper prefixes of each other must not confuse path-based strategies.
    fn prefix_sibling(&mut self, m: &mut Map<String, Value>) {
        if !self.r.chance(8) {
            return;
        }
        let cand: Vec<(String, String, Value)> = m
            .iter()
            .filter_map(|(k, v)| v.as_object().and_then(|o| o.iter().next()).map(|(c, cv)| (k.clone(), c.clone(), cv.clone())))
            .collect();
        if cand.is_empty() {
            return;
        }
        let (k, c, cv) = self.r.pick(&cand).clone();
        // outside Custom strategies also the sibling whose NAME is the path text of the child
        // ("org.unit" next to org -> unit)
        let name = if !self.cfg.safe_names && self.r.chance(40) { format!("{k}.{c}") } else { format!("{k}{c}") };
        // "_sd_" + "alg", "_s" + "d", "c" + "nf" ...: a concatenation may spell a reserved / registered name
        let excluded = ["_sd", "...", "_sd_alg", "cnf", "aud", "sub", "nbf", "iss", "exp", "iat"].contains(&name.as_str());
        if !excluded && !m.contains_key(&name) && !k.is_empty() && !c.is_empty() {
            let v = if self.r.chance(50) { cv } else { self.leaf() };
            m.insert(name, v);
        }
    }

    /// Occasionally two CONSECUTIVE members of which the second is named like the escaped spelling of the
    /// first ("col<TAB>A" then the seven characters col\tA; "straße" then stra\u00dfe; a quote, a backslash):
    /// distinct names; a cache keyed by escaped text, or escaping applied twice, would confuse them.
    fn escaped_twin(&mut self, m: &mut Map<String, Value>) {
        if self.cfg.safe_names || !self.r.chance(4) {
            return;
        }
        let first = (*self.r.pick(&["col\tA", "q\"uote", "back\\slash", "line\nbreak", "stra\u{df}e", "\u{1f600}k", "nul\u{0}", "a/b\u{7f}"])).to_string();
        let body = |s: &str| -> String {
            let j = serde_json::to_string(s).unwrap_or_default();
            j[1..j.len().saturating_sub(1)].to_string()
        };
        let mut twin = body(&first);
        if twin == first {
            // (non-ASCII is not escaped by serde_json: spell the \uXXXX form by hand)
            twin = first.chars().flat_map(|c| if c.is_ascii() { vec![c] } else { let mut b = [0u16; 2]; c.encode_utf16(&mut b).iter().flat_map(|u| format!("\\u{u:04x}").chars().collect::<Vec<_>>()).collect() }).collect();
        }
        if m.contains_key(&first) || m.contains_key(&twin) || twin == first {
            return;
        }
        let (a, b) = (self.leaf(), self.leaf());
        m.insert(first, a);
        m.insert(twin.clone(), b);
        if self.r.chance(30) {
            // ... and the twin's own escaped spelling right behind it
            let third = body(&twin);
            if third != twin && !m.contains_key(&third) {
                let c = self.leaf();
                m.insert(third, c);
            }
        }
    }

    /// Occasionally two sibling members whose names collide under a common non-cryptographic 32-bit hash
    /// (FNV-1a, FNV-1, Java's String.hashCode, djb2, CRC-32): a table keyed by such a fingerprint of the
    /// name instead of the name confuses exactly these.
    fn hash_twin(&mut self, m: &mut Map<String, Value>) {
        if !self.r.chance(3) {
            return;
        }
        const PAIRS: [(&str, &str); 10] = [
            ("costarring", "liquid"), ("declinate", "macallums"), ("altarage", "zinke"), ("altarages", "zinkes"),
            ("Aa", "BB"), ("AaAa", "BBBB"), ("AaBB", "BBAa"), ("plumless", "buckeroo"), ("hetairas", "mentioner"), ("heliotropes", "neurospora"),
        ];
        let (a, b) = *self.r.pick(&PAIRS);
        if m.contains_key(a) || m.contains_key(b) {
            return;
        }
        let (x, y) = (self.leaf(), self.leaf());
        m.insert(a.to_string(), x);
        m.insert(b.to_string(), y);
    }

    fn array(&mut self, depth: u32) -> Value {
        let n = match self.cfg.profile {
            Profile::EmptyContainers => self.r.below(3),
            Profile::Wide => 2 + self.r.below(6),
            Profile::Boundary => *self.r.pick(&[0u64, 1, 2, 7, 8, 9, 15, 16, 17, 31, 32, 33]),
            _ => self.r.below(5),
        };
        let mut out = vec![];
        if self.budget > 0 && self.r.chance(4) {
            // occasionally a long array of leaves: two-digit indices ([1] vs [10]..[13]); in the
            // Boundary profile also lengths around 2^8 (chunked / parallel processing boundaries)
            let long = if self.cfg.profile == Profile::Boundary && self.r.chance(30) {
                if self.r.chance(12) {
                    // more than a thousand elements (hard caps on part counts, u8 / u10 counters)
                    *self.r.pick(&[1022u64, 1023, 1024, 1025, 1100])
                } else {
                    *self.r.pick(&[255u64, 256, 257, 258, 259])
                }
            } else {
                11 + self.r.below(4)
            };
            let rows = long < 100 && self.r.chance(30);
            for _ in 0..long {
                // sometimes rows of small objects (paths through two-digit indices: a[10].x vs a[1].x)
                let v = if rows {
                    let (l1, l2) = (self.leaf(), self.leaf());
                    json!({"x": l1, "y": l2})
                } else {
                    self.leaf()
                };
                out.push(v);
            }
            self.budget -= 4;
            return Value::Array(out);
        }
        if self.r.chance(2) {
            // elements that only LOOK like array placeholders: one member whose name merely starts with "..."
            out.push(self.r.pick(&[json!({"...continued": "see appendix B"}), json!({"....": 1}), json!({"... ": "x"}), json!({"..": "y"})]).clone());
        }
        for _ in 0..n {
            let v = match self.cfg.profile {
                Profile::ArraysOfArrays if depth > 0 && self.budget > 0 && self.r.chance(60) => {
                    self.budget -= 1;
                    self.array(depth - 1)
                }
                Profile::ObjectsInArrays if depth > 0 && self.budget > 0 && self.r.chance(60) => {
                    self.budget -= 1;
                    self.object(depth - 1)
                }
                _ => self.value(depth),
            };
            out.push(v);
        }
        Value::Array(out)
    }
}

/// A generated claim set: JSON object with string `iss`, integer `exp` well in the future,
/// optional `iat`/`sub`/`nbf`, plus 1..7 generated members of depth <= 8.
pub fn gen_claims(r: &mut Rng, cfg: &GenCfg) -> Value {
    let mut g = G {
        r,
        cfg,
        id: 0,
        budget: cfg.max_nodes,
    };
    let mut entries: Vec<(String, Value)> = vec![];
    let exp = cfg.now + 3600 + g.r.below(4_102_444_800 - cfg.now - 3600);
    entries.push(("iss".into(), json!(cfg.iss)));
    if g.r.chance(2) {
        // integer instants far beyond 2100, up to the limits of the integer types
        entries.push(("exp".into(), g.r.pick(&[json!(u64::MAX), json!(9_223_372_036_854_775_808u64), json!(i64::MAX), json!(253_402_300_800u64), json!(u32::MAX as u64 + 1)]).clone()));
    } else {
        entries.push(("exp".into(), json!(exp)));
    }
    if g.r.chance(50) {
        // iat is an ordinary always-visible claim: past, present, post-dated, epoch, fractional
        let iat = match g.r.below(11) {
            // a structured iat (the properties leave its type open): still always visible, as a whole
            10 => {
                let (t1, t2) = (g.tag(), g.tag());
                if g.r.chance(50) { json!({format!("source{t1}"): "ntp", "t": cfg.now, "hist": [{format!("k{t2}"): 1}, 2]}) } else { json!([cfg.now, {format!("k{t1}"): {format!("z{t2}"): null}}, []]) }
            }
            0 => json!(cfg.now + 120 + g.r.below(600)),
            1 => json!(cfg.now + 7 * 86_400),
            2 => json!(0),
            3 => json!((cfg.now as f64) - 0.5),
            4 => json!(4_000_000_000u64),
            _ => json!(cfg.now - g.r.below(100_000)),
        };
        entries.push(("iat".into(), iat));
    }
    if g.r.chance(12) {
        // names from the JWT / OpenID / SD-JWT VC registries are ordinary claims for this library
        let nm = *g.r.pick(&["vct", "status", "jti", "nonce", "typ", "kid", "amr", "acr", "azp", "auth_time", "updated_at", "address", "vc", "vp", "scope", "client_id", "sd_hash", "x5c"]);
        let v = match g.r.below(4) {
            0 => {
                let t = g.tag();
                json!({"status_list": {"idx": g.r.below(1000), "uri": "https://s.example/1"}, format!("k{t}"): [{"a": 1}, {}]})
            }
            1 => json!("https://credentials.example/identity_credential"),
            2 => {
                let t = g.tag();
                json!([{format!("x{t}"): 1}, "y"])
            }
            _ => g.value(2),
        };
        entries.push((nm.to_string(), v));
    }
    if cfg.profile == Profile::Boundary && g.r.chance(4) {
        // 16 / 17 / 33 array-valued claims side by side at one level
        for _ in 0..*g.r.pick(&[16u64, 17, 33]) {
            let t = g.tag();
            entries.push((format!("list{t}"), json!(["x", "y"])));
        }
    }
    if g.r.chance(4) {
        // OpenID-style event times that lie in the FUTURE (or are given in milliseconds): ordinary claims
        entries.push(((*g.r.pick(&["auth_time", "updated_at"])).to_string(), g.r.pick(&[json!(cfg.now + 1800), json!(cfg.now * 1000), json!(cfg.now + 86_400 * 400)]).clone()));
    }
    if g.r.chance(30) {
        let s = g.string(false);
        entries.push(("sub".into(), Value::String(s)));
    }
    if g.r.chance(20) {
        entries.push(("nbf".into(), json!(cfg.now - 120 - g.r.below(1_000_000))));
    }
    let n = match cfg.profile {
        Profile::Wide => 4 + g.r.below(6),
        Profile::Flat => 2 + g.r.below(6),
        Profile::Boundary => {
            if g.r.chance(6) {
                *g.r.pick(&[63u64, 64, 65, 127, 128, 129, 250, 251, 252, 253, 254, 255, 256, 257, 509, 510, 511, 512])
            } else {
                *g.r.pick(&[1u64, 2, 7, 8, 9, 15, 16, 17])
            }
        }
        _ => 1 + g.r.below(5),
    };
    for _ in 0..n {
        let name = g.string(true);
        let d = match cfg.profile {
            Profile::Flat => g.r.below(2) as u32,
            Profile::Boundary => g.r.below(3) as u32,
            Profile::DeepObjects | Profile::ArraysOfArrays => 3 + g.r.below(5) as u32,
            _ => 1 + g.r.below(7) as u32,
        };
        let v = g.value(d);
        entries.push((name, v));
    }
    g.r.shuffle(&mut entries);
    let mut m = Map::new();
    for (k, v) in entries {
        m.insert(k, v);
    }
    g.prefix_sibling(&mut m);
    g.lookalike_sibling(&mut m);
    g.child_named_like_parent(&mut m);
    if g.r.chance(4) {
        // the same multi-member object twice in one claim set (billing = shipping address), the
        // second copy sometimes with its members in another order, sometimes both inside one array
        let a = json!({"street": "Heidestr. 17", "city": "K\u{f6}ln", "zip": "51147", "country": "DE", "kty": "EC", "geo": {"lat": 50.9, "lon": 6.9}});
        let b = if g.r.chance(50) { a.clone() } else { json!({"geo": {"lon": 6.9, "lat": 50.9}, "kty": "EC", "country": "DE", "zip": "51147", "city": "K\u{f6}ln", "street": "Heidestr. 17"}) };
        let (t1, t2) = (g.tag(), g.tag());
        if g.r.chance(70) {
            m.insert(format!("billing{t1}"), a);
            m.insert(format!("shipping{t2}"), b);
        } else {
            m.insert(format!("addresses{t1}"), json!([a, b, [1, 2], [1, 2]]));
        }
    }
    Value::Object(m)
}

pub fn all_paths(v: &Value) -> Vec<Path> {
    fn go(v: &Value, p: &mut Path, out: &mut Vec<Path>) {
        match v {
            Value::Object(m) => {
                for (k, c) in m {
                    p.push(Step::K(k.clone()));
                    out.push(p.clone());
                    go(c, p, out);
                    p.pop();
                }
            }
            Value::Array(a) => {
                for (i, c) in a.iter().enumerate() {
                    p.push(Step::I(i));
                    out.push(p.clone());
                    go(c, p, out);
                    p.pop();
                }
            }
            _ => {}
        }
    }
    let mut out = vec![];
    go(v, &mut vec![], &mut out);
    out
}

/// Top-level iss / iat / exp — and everything below them when they are structured — are copied into
/// the payload as they are: never selectively disclosable, no digest lists, no decoys.
pub fn always_visible(p: &Path) -> bool {
    !p.is_empty() && matches!(&p[0], Step::K(k) if k == "iss" || k == "iat" || k == "exp")
}

/// JSONPath-like rendering as the issuer's Custom strategy expects; each array step is
/// spelled `a[0]` or `a.[0]` at random.
pub fn render_path(p: &Path, r: &mut Rng) -> String {
    let mut s = String::from("$");
    for st in p {
        match st {
            Step::K(k) => {
                s.push('.');
                s.push_str(k);
            }
            Step::I(i) => {
                if r.chance(50) {
                    s.push('.');
                }
                s.push_str(&format!("[{i}]"));
            }
        }
    }
    s
}

#[derive(Clone, Debug, PartialEq, Eq, Hash, PartialOrd, Ord, Copy)]
pub enum StratKind {
    NoSD,
    TopLevel,
    AllLevels,
    Custom10,
    Custom40,
    Custom80,
}
pub const STRAT_KINDS: [StratKind; 6] = [
    StratKind::NoSD,
    StratKind::TopLevel,
    StratKind::AllLevels,
    StratKind::Custom10,
    StratKind::Custom40,
    StratKind::Custom80,
];
impl StratKind {
    pub fn is_custom(self) -> bool {
        matches!(self, StratKind::Custom10 | StratKind::Custom40 | StratKind::Custom80)
    }
    pub fn name(self) -> &'static str {
        match self {
            StratKind::NoSD => "NoSDClaims",
            StratKind::TopLevel => "TopLevel",
            StratKind::AllLevels => "AllLevels",
            StratKind::Custom10 => "Custom10",
            StratKind::Custom40 => "Custom40",
            StratKind::Custom80 => "Custom80",
        }
    }
}

/// A strategy instance together with the model's SD set (DESIGN.md §3.3 a).
#[derive(Clone, Debug)]
pub struct Strategy {
    pub kind: StratKind,
    /// rendered path strings (Custom only)
    pub paths: Vec<String>,
    /// SD(U, strategy): computed from the *intended* paths, never from the library
    pub sd: BTreeSet<Path>,
}

impl Strategy {
    pub fn to_lib<'a>(&'a self) -> sd_jwt_rs::ClaimsForSelectiveDisclosureStrategy<'a> {
        use sd_jwt_rs::ClaimsForSelectiveDisclosureStrategy as S;
        match self.kind {
            StratKind::NoSD => S::NoSDClaims,
            StratKind::TopLevel => S::TopLevel,
            StratKind::AllLevels => S::AllLevels,
            _ => S::Custom(self.paths.iter().map(|s| s.as_str()).collect()),
        }
    }
    pub fn describe(&self) -> Value {
        json!({"kind": self.kind.name(), "paths": self.paths, "sd_count": self.sd.len()})
    }
}

pub fn gen_strategy(r: &mut Rng, u: &Value, kind: StratKind) -> Strategy {
    let paths = all_paths(u);
    let mut sd = BTreeSet::new();
    let mut strs = vec![];
    match kind {
        StratKind::NoSD => {}
        StratKind::TopLevel => {
            for p in &paths {
                if p.len() == 1 && !always_visible(p) {
                    sd.insert(p.clone());
                }
            }
        }
        StratKind::AllLevels => {
            for p in &paths {
                if !always_visible(p) {
                    sd.insert(p.clone());
                }
            }
        }
        StratKind::Custom10 | StratKind::Custom40 | StratKind::Custom80 => {
            let pct = match kind {
                StratKind::Custom10 => 10,
                StratKind::Custom40 => 40,
                _ => 80,
            };
            for p in &paths {
                if r.chance(pct) {
                    strs.push(render_path(p, r));
                    if !always_visible(p) {
                        sd.insert(p.clone());
                    }
                    if r.chance(8) {
                        // duplicates must be harmless
                        strs.push(render_path(p, r));
                    }
                }
            }
            if r.chance(30) {
                // paths that name no claim: no effect (candidates that happen to name one are dropped below)
                let keep = strs.len();
                strs.push("$.nonexistent".into());
                strs.push("$.nonexistent[3].x".into());
                if let Some(p) = paths.iter().find(|p| p.len() == 1) {
                    let base = render_path(p, r);
                    strs.push(format!("{base}[99999]"));
                    strs.push(format!("{base}.zz.yy"));
                    strs.push(format!("{base}\u{7f}no-such-suffix"));
                    // the same path in another letter case names no claim (unless a twin exists)
                    // recursive-descent spelling: "$..x" is member x of the top-level member "" (if any)
                    if let Some(deep) = paths.iter().find(|p| p.len() >= 2 && matches!(p.last(), Some(Step::K(_)))) {
                        if let Some(Step::K(k)) = deep.last() {
                            strs.push(format!("$..{k}"));
                        }
                    }
                    strs.push(format!("$.{}", base[2..].to_uppercase()));
                    strs.push(format!("$.{}", base[2..].to_lowercase()));
                }
                strs.push("$.iss".into());
                strs.push("$.exp".into());
                strs.push("$.iat".into());
                // non-canonical spellings of an index name no element
                if let Some(p) = paths.iter().find(|p| matches!(p.last(), Some(Step::I(_))) && !sd.contains(*p)) {
                    if let Some(Step::I(i)) = p.last() {
                        let parent = render_path(&p[..p.len() - 1].to_vec(), r);
                        for form in [format!("[0{i}]"), format!("[+{i}]"), format!("[ {i}]"), format!("[{i} ]"), format!("[{i}.0]"), format!("[0x{i}]"), format!("[00{i}]"), format!(".{i}"), format!(".{i}."), format!("[{i}"), format!("{i}]"), format!("[-{i}]"), format!("['{i}']"), format!("[\"{i}\"]")] {
                            strs.push(format!("{parent}{form}"));
                        }
                    }
                }
                let extras: Vec<String> = strs.split_off(keep);
                for e in extras {
                    let top_visible = ["$.iss", "$.exp", "$.iat"].contains(&e.as_str());
                    if top_visible || !path_names_claim(u, &e) {
                        strs.push(e);
                    }
                }
            }
            r.shuffle(&mut strs);
        }
    }
    Strategy {
        kind,
        paths: strs,
        sd,
    }
}

/// Does `path` (as written for the Custom strategy) name a claim of `u`? Member names under
/// Custom are free of '.' and '[', so a segment ends at the next '.' or '['; an index is a
/// canonical decimal in brackets.
pub fn path_names_claim(u: &Value, path: &str) -> bool {
    let mut rest = match path.strip_prefix("$.") {
        Some(r) => r,
        None => return false,
    };
    let mut cur = u;
    loop {
        match cur {
            Value::Object(m) => {
                let end = rest.find(['.', '[']).unwrap_or(rest.len());
                let key = &rest[..end];
                match m.get(key) {
                    None => return false,
                    Some(v) => {
                        cur = v;
                        rest = &rest[end..];
                    }
                }
            }
            Value::Array(a) => {
                if !rest.starts_with('[') {
                    return false;
                }
                let close = match rest.find(']') {
                    Some(c) => c,
                    None => return false,
                };
                let digits = &rest[1..close];
                let canonical = !digits.is_empty() && digits.bytes().all(|b| b.is_ascii_digit()) && (digits == "0" || !digits.starts_with('0'));
                match (canonical, digits.parse::<usize>().ok().and_then(|i| a.get(i))) {
                    (true, Some(v)) => {
                        cur = v;
                        rest = &rest[close + 1..];
                    }
                    _ => return false,
                }
            }
            _ => return false,
        }
        if rest.is_empty() {
            return true;
        }
        // separator before the next segment: ".name", ".[i]" or "[i]"
        if let Some(r) = rest.strip_prefix('.') {
            rest = r;
            if rest.is_empty() {
                // "$.a." names member "" of a
                continue;
            }
        } else if !rest.starts_with('[') {
            return false;
        }
    }
}

/// Custom strategy with an explicit set of SD paths (used for "every subset" enumeration).
pub fn custom_strategy_for(r: &mut Rng, sd_paths: &[Path]) -> Strategy {
    let mut sd = BTreeSet::new();
    let mut strs = vec![];
    for p in sd_paths {
        strs.push(render_path(p, r));
        if !always_visible(p) {
            sd.insert(p.clone());
        }
    }
    Strategy {
        kind: StratKind::Custom40,
        paths: strs,
        sd,
    }
}

// ------------------------------------------------------------------------------------------
// selections

#[derive(Clone, Copy, Debug, PartialEq, Eq, Hash, PartialOrd, Ord)]
pub enum SelKind {
    Nothing,
    Everything,
    Random,
    RandomSparse,
    RandomDense,
}
pub const SEL_KINDS: [SelKind; 5] = [
    SelKind::Nothing,
    SelKind::Everything,
    SelKind::Random,
    SelKind::RandomSparse,
    SelKind::RandomDense,
];

pub fn select_all(v: &Value) -> Value {
    match v {
        Value::Object(m) => Value::Object(m.iter().map(|(k, c)| (k.clone(), select_all(c))).collect()),
        Value::Array(a) => Value::Array(a.iter().map(select_all).collect()),
        _ => Value::Bool(true),
    }
}

/// Type-consistent selection tree over {true,false,null,absent,object,array}; arrays with
/// prefix length 0..len+2.
pub fn gen_selection(r: &mut Rng, u: &Value, kind: SelKind) -> Value {
    match kind {
        SelKind::Nothing => json!({}),
        SelKind::Everything => select_all(u),
        SelKind::Random => sel_container(r, u, 25, 30),
        SelKind::RandomSparse => sel_container(r, u, 50, 50),
        SelKind::RandomDense => sel_container(r, u, 5, 8),
    }
}

fn sel_container(r: &mut Rng, v: &Value, p_absent: u64, p_false: u64) -> Value {
    match v {
        Value::Object(m) => {
            let mut o = Map::new();
            for (k, c) in m {
                if r.chance(p_absent) {
                    continue;
                }
                o.insert(k.clone(), sel_node(r, c, p_absent, p_false));
            }
            Value::Object(o)
        }
        Value::Array(a) => {
            let len = match r.below(5) {
                0 => r.usize(a.len() + 1),
                1 => a.len() + 1 + r.usize(2),
                _ => a.len(),
            };
            Value::Array(
                (0..len)
                    .map(|i| match a.get(i) {
                        Some(c) => sel_node(r, c, p_absent, p_false),
                        None => {
                            if r.chance(50) {
                                Value::Bool(true)
                            } else {
                                Value::Bool(false)
                            }
                        }
                    })
                    .collect(),
            )
        }
        _ => Value::Bool(true),
    }
}

fn sel_node(r: &mut Rng, v: &Value, p_absent: u64, p_false: u64) -> Value {
    let x = r.below(100);
    if x < p_false * 2 / 3 {
        Value::Bool(false)
    } else if x < p_false {
        Value::Null
    } else if x < p_false + 20 {
        Value::Bool(true)
    } else if v.is_object() || v.is_array() {
        sel_container(r, v, p_absent, p_false)
    } else {
        Value::Bool(true)
    }
}

/// Narrow a selection: switch arbitrary nodes to false / null / absent / true (C15).
pub fn narrow_selection(r: &mut Rng, s: &Value) -> Value {
    fn deselected(v: &Value) -> bool {
        v.is_null() || *v == Value::Bool(false)
    }
    match s {
        Value::Object(m) => Value::Object(
            m.iter()
                .filter_map(|(k, v)| match r.below(10) {
                    0 => None,
                    1 => Some((k.clone(), Value::Bool(false))),
                    2 => Some((k.clone(), Value::Null)),
                    3 => Some((
                        k.clone(),
                        if deselected(v) {
                            v.clone()
                        } else {
                            Value::Bool(true)
                        },
                    )),
                    _ => Some((k.clone(), narrow_selection(r, v))),
                })
                .collect(),
        ),
        Value::Array(a) => {
            let keep = if r.chance(20) {
                r.usize(a.len() + 1)
            } else {
                a.len()
            };
            Value::Array(
                a.iter()
                    .take(keep)
                    .map(|v| match r.below(10) {
                        0 | 1 => Value::Bool(false),
                        2 => Value::Null,
                        3 => {
                            if deselected(v) {
                                v.clone()
                            } else {
                                Value::Bool(true)
                            }
                        }
                        _ => narrow_selection(r, v),
                    })
                    .collect(),
            )
        }
        x => x.clone(),
    }
}

/// Arbitrary JSON for the weak form of C06 and for C07 (numbers, strings, wrong container
/// kinds, unknown names, deeper / longer than the claims).
pub fn gen_arbitrary_selection(r: &mut Rng, u: &Value, depth: u32) -> Value {
    fn any(r: &mut Rng, d: u32, names: &[String]) -> Value {
        match r.below(if d == 0 { 6 } else { 9 }) {
            0 => Value::Null,
            1 => Value::Bool(true),
            2 => Value::Bool(false),
            3 => json!(r.below(5)),
            4 => json!("str"),
            5 => json!(1.5),
            6 => Value::Array((0..r.below(5)).map(|_| any(r, d - 1, names)).collect()),
            _ => {
                let mut m = Map::new();
                for _ in 0..r.below(4) {
                    let k = if !names.is_empty() && r.chance(70) {
                        r.pick(names).clone()
                    } else {
                        (*r.pick(&["zz", "_sd", "...", "", "iss", "cnf"])).to_string()
                    };
                    let v = any(r, d - 1, names);
                    m.insert(k, v);
                }
                Value::Object(m)
            }
        }
    }
    fn names_of(v: &Value, out: &mut Vec<String>) {
        match v {
            Value::Object(m) => {
                for (k, c) in m {
                    out.push(k.clone());
                    names_of(c, out);
                }
            }
            Value::Array(a) => a.iter().for_each(|c| names_of(c, out)),
            _ => {}
        }
    }
    fn mutate(r: &mut Rng, sel: &Value, d: u32, names: &[String]) -> Value {
        // start from a type-consistent selection and corrupt some nodes
        match sel {
            Value::Object(m) => {
                let mut o = Map::new();
                for (k, v) in m {
                    if r.chance(15) {
                        o.insert(k.clone(), any(r, d, names));
                    } else {
                        o.insert(k.clone(), mutate(r, v, d, names));
                    }
                }
                if r.chance(25) {
                    let k = (*r.pick(&["zz", "nope", "_sd", "...", ""])).to_string();
                    o.insert(k, any(r, d, names));
                }
                if r.chance(6) {
                    // the digest list itself addressed like an array claim
                    o.insert("_sd".into(), Value::Array((0..1 + r.below(4)).map(|_| Value::Bool(true)).collect()));
                }
                Value::Object(o)
            }
            Value::Array(a) if r.chance(12) => {
                // an OBJECT selector on an array claim whose member names are decimal numbers:
                // valid indices, the length itself (one past the end), beyond it, negative, padded
                let n = a.len();
                let mut o = Map::new();
                for _ in 0..1 + r.below(3) {
                    let k = match r.below(7) {
                        0 => n.to_string(),
                        1 => (n + 1).to_string(),
                        2 => "0".to_string(),
                        3 => n.saturating_sub(1).to_string(),
                        4 => "-1".to_string(),
                        5 => format!("0{}", n),
                        _ => "18446744073709551616".to_string(),
                    };
                    let v = if r.chance(70) { Value::Bool(true) } else { any(r, d.min(1), names) };
                    o.insert(k, v);
                }
                Value::Object(o)
            }
            Value::Array(a) => {
                let mut out: Vec<Value> = a
                    .iter()
                    .map(|v| {
                        if r.chance(15) {
                            any(r, d, names)
                        } else {
                            mutate(r, v, d, names)
                        }
                    })
                    .collect();
                if r.chance(25) {
                    for _ in 0..1 + r.below(3) {
                        out.push(any(r, d, names));
                    }
                }
                Value::Array(out)
            }
            x => {
                if r.chance(15) {
                    any(r, d, names)
                } else {
                    x.clone()
                }
            }
        }
    }
    let mut names = vec![];
    names_of(u, &mut names);
    let v = if r.chance(50) {
        let base = gen_selection(r, u, SelKind::RandomDense);
        mutate(r, &base, depth, &names)
    } else {
        any(r, depth.max(1), &names)
    };
    match v {
        Value::Object(_) => v,
        other => {
            let mut m = Map::new();
            if let Some(n) = names.first() {
                m.insert(n.clone(), other);
            }
            Value::Object(m)
        }
    }
}

/// Structural fingerprint of a claims tree: container shape and leaf kinds, ignoring the
/// concrete names / values (used for `distinct_nontrivial`).
pub fn shape_fingerprint(v: &Value) -> u64 {
    fn go(v: &Value, h: &mut u64) {
        let mut feed = |x: u64| {
            *h = crate::rng::mix(*h ^ x.wrapping_mul(0x9E3779B97F4A7C15));
        };
        match v {
            Value::Null => feed(1),
            Value::Bool(b) => feed(2 + *b as u64),
            Value::Number(n) => feed(if n.is_u64() {
                4
            } else if n.is_i64() {
                5
            } else {
                6
            }),
            Value::String(s) => feed(7 + (s.is_empty() as u64) + 2 * (!s.is_ascii() as u64)),
            Value::Array(a) => {
                feed(20 + a.len() as u64);
                for c in a {
                    go(c, h);
                }
                *h = crate::rng::mix(*h ^ 0xA11);
            }
            Value::Object(m) => {
                *h = crate::rng::mix(*h ^ (40 + m.len() as u64));
                for (_, c) in m {
                    go(c, h);
                }
                *h = crate::rng::mix(*h ^ 0x0B1);
            }
        }
    }
    let mut h = 0x5EED;
    go(v, &mut h);
    h
}

pub fn hash_str(s: &str) -> u64 {
    let mut h = 0xcbf29ce484222325u64;
    for b in s.bytes() {
        h ^= b as u64;
        h = h.wrapping_mul(0x100000001b3);
    }
    crate::rng::mix(h)
}

/// A selection that asks for something the claims do not have: starting from `sel`, walk down the claims
/// along a random chain of containers and, at the object where the walk stops, name a member that does not
/// exist (as `true`, as a scalar, or as a nested selector). Objects WITHOUT hidden members are as likely to be
/// the stopping point as any other.
pub fn spoil_selection(r: &mut Rng, u: &Value, sel: &Value) -> Value {
    match u {
        Value::Object(m) => {
            let mut out = sel.as_object().cloned().unwrap_or_default();
            let containers: Vec<&String> = m.iter().filter(|(_, v)| v.is_object() || v.as_array().map(|a| a.iter().any(|e| e.is_object() || e.is_array())).unwrap_or(false)).map(|(k, _)| k).collect();
            if containers.is_empty() || r.chance(35) {
                let name = (*r.pick(&["no-such-member", "no-such-member", "zz", "", "_sd_x", "0", "cnf"])).to_string();
                let name = if m.contains_key(&name) { format!("{name}#absent") } else { name };
                let how = match r.below(5) {
                    0 | 1 => Value::Bool(true),
                    2 => json!("x"),
                    3 => json!({"x": true}),
                    _ => json!([true]),
                };
                out.insert(name, how);
            } else {
                let k = (*r.pick(&containers)).clone();
                let below = spoil_selection(r, &m[&k], out.get(&k).unwrap_or(&Value::Null));
                out.insert(k, below);
            }
            Value::Object(out)
        }
        Value::Array(a) => {
            let mut out: Vec<Value> = sel.as_array().cloned().unwrap_or_default();
            let idx: Vec<usize> = a.iter().enumerate().filter(|(_, e)| e.is_object() || e.is_array()).map(|(i, _)| i).collect();
            if idx.is_empty() {
                return sel.clone();
            }
            let i = *r.pick(&idx);
            while out.len() <= i {
                out.push(Value::Bool(false));
            }
            out[i] = spoil_selection(r, &a[i], &out[i].clone());
            Value::Array(out)
        }
        _ => sel.clone(),
    }
}
