//! Deterministic PRNG: everything random in the harness derives from VERIF_SEED.
//! SplitMix64 — case `i` of property `p` is a pure function of (seed, p, i).

#[derive(Clone, Debug)]
pub struct Rng(pub u64);

pub fn mix(mut z: u64) -> u64 {
    z = (z ^ (z >> 30)).wrapping_mul(0xBF58476D1CE4E5B9);
    z = (z ^ (z >> 27)).wrapping_mul(0x94D049BB133111EB);
    z ^ (z >> 31)
}

impl Rng {
    /// Generator for case `case` of stream `stream` (a small per-property constant) under `seed`.
    pub fn for_case(seed: u64, stream: u64, case: u64) -> Rng {
        let a = mix(seed.wrapping_add(0x9E3779B97F4A7C15));
        let b = mix(a ^ stream.wrapping_mul(0xD1342543DE82EF95));
        Rng(mix(b ^ case.wrapping_mul(0x2545F4914F6CDD1D)))
    }
    pub fn next(&mut self) -> u64 {
        self.0 = self.0.wrapping_add(0x9E3779B97F4A7C15);
        mix(self.0)
    }
    pub fn below(&mut self, n: u64) -> u64 {
        if n == 0 {
            0
        } else {
            self.next() % n
        }
    }
    pub fn usize(&mut self, n: usize) -> usize {
        self.below(n as u64) as usize
    }
    pub fn chance(&mut self, pct: u64) -> bool {
        self.below(100) < pct
    }
    pub fn pick<'a, T>(&mut self, xs: &'a [T]) -> &'a T {
        &xs[self.usize(xs.len())]
    }
    pub fn shuffle<T>(&mut self, xs: &mut [T]) {
        for i in (1..xs.len()).rev() {
            let j = self.usize(i + 1);
            xs.swap(i, j);
        }
    }
    pub fn fork(&mut self) -> Rng {
        Rng(mix(self.next()))
    }
}
