//! Fixed test keys (generated once with openssl, committed under harness/keys).
//! Two issuer keys and two holder keys per asymmetric algorithm, two HS256 secrets.

use jsonwebtoken::jwk::Jwk;
use jsonwebtoken::{DecodingKey, EncodingKey};

#[derive(Clone, Copy, Debug, PartialEq, Eq, Hash, PartialOrd, Ord)]
pub enum Alg {
    ES256,
    EdDSA,
    HS256,
}

pub const ALL_ALGS: [Alg; 3] = [Alg::ES256, Alg::EdDSA, Alg::HS256];

impl Alg {
    pub fn name(self) -> &'static str {
        match self {
            Alg::ES256 => "ES256",
            Alg::EdDSA => "EdDSA",
            Alg::HS256 => "HS256",
        }
    }
    pub fn jwt(self) -> jsonwebtoken::Algorithm {
        match self {
            Alg::ES256 => jsonwebtoken::Algorithm::ES256,
            Alg::EdDSA => jsonwebtoken::Algorithm::EdDSA,
            Alg::HS256 => jsonwebtoken::Algorithm::HS256,
        }
    }
}

const ES_PRIV: [&str; 2] = [include_str!("../keys/es_a.pem"), include_str!("../keys/es_b.pem")];
const ES_PUB: [&str; 2] = [
    include_str!("../keys/es_a.pub.pem"),
    include_str!("../keys/es_b.pub.pem"),
];
const ED_PRIV: [&str; 2] = [include_str!("../keys/ed_a.pem"), include_str!("../keys/ed_b.pem")];
const ED_PUB: [&str; 2] = [
    include_str!("../keys/ed_a.pub.pem"),
    include_str!("../keys/ed_b.pub.pem"),
];
const HS_SECRET: [&[u8]; 2] = [
    b"harness-hs256-secret-A-0123456789abcdef0123456789abcdef",
    b"harness-hs256-secret-B-fedcba9876543210fedcba9876543210",
];

const ESH_PRIV: [&str; 3] = [include_str!("../keys/es_h1.pem"), include_str!("../keys/es_h2.pem"), include_str!("../keys/es_h3.pem")];
/// index 2: a P-256 key whose x coordinate begins with a zero octet (fixed-length coordinates must
/// keep it)
const ESH_JWK: [&str; 3] = [
    include_str!("../keys/es_h1.jwk.json"),
    include_str!("../keys/es_h2.jwk.json"),
    include_str!("../keys/es_h3.jwk.json"),
];
const EDH_PRIV: [&str; 2] = [include_str!("../keys/ed_h1.pem"), include_str!("../keys/ed_h2.pem")];
const EDH_JWK: [&str; 2] = [
    include_str!("../keys/ed_h1.jwk.json"),
    include_str!("../keys/ed_h2.jwk.json"),
];

pub fn issuer_enc(alg: Alg, idx: usize) -> EncodingKey {
    match alg {
        Alg::ES256 => EncodingKey::from_ec_pem(ES_PRIV[idx].as_bytes()).expect("es key"),
        Alg::EdDSA => EncodingKey::from_ed_pem(ED_PRIV[idx].as_bytes()).expect("ed key"),
        Alg::HS256 => EncodingKey::from_secret(HS_SECRET[idx]),
    }
}

pub fn issuer_dec(alg: Alg, idx: usize) -> DecodingKey {
    match alg {
        Alg::ES256 => DecodingKey::from_ec_pem(ES_PUB[idx].as_bytes()).expect("es pub"),
        Alg::EdDSA => DecodingKey::from_ed_pem(ED_PUB[idx].as_bytes()).expect("ed pub"),
        Alg::HS256 => DecodingKey::from_secret(HS_SECRET[idx]),
    }
}

/// The bytes an attacker knows about an asymmetric issuer key (its public PEM); used for the
/// "HS256 keyed with the public key" confusion attack.
pub fn issuer_public_bytes(alg: Alg, idx: usize) -> Vec<u8> {
    match alg {
        Alg::ES256 => ES_PUB[idx].as_bytes().to_vec(),
        Alg::EdDSA => ED_PUB[idx].as_bytes().to_vec(),
        Alg::HS256 => HS_SECRET[idx].to_vec(),
    }
}

/// DER (SubjectPublicKeyInfo) bytes of an asymmetric issuer public key.
pub fn issuer_public_der(alg: Alg, idx: usize) -> Vec<u8> {
    use base64::Engine;
    let pem = String::from_utf8(issuer_public_bytes(alg, idx)).unwrap_or_default();
    let b64: String = pem.lines().filter(|l| !l.starts_with("-----")).collect();
    base64::engine::general_purpose::STANDARD.decode(b64).unwrap_or_default()
}

/// The raw key material jsonwebtoken keeps for an asymmetric public key: the 65-byte
/// uncompressed P-256 point, or the 32-byte Ed25519 key (the tail of the SPKI DER).
pub fn issuer_public_raw(alg: Alg, idx: usize) -> Vec<u8> {
    let der = issuer_public_der(alg, idx);
    let n = match alg {
        Alg::ES256 => 65,
        Alg::EdDSA => 32,
        Alg::HS256 => return issuer_public_bytes(alg, idx),
    };
    der[der.len().saturating_sub(n)..].to_vec()
}

/// Holder key algorithms: only ES256 and EdDSA (a JWK in `cnf`). All four holder JWKs carry the
/// SAME `kid` on purpose (a key id does not identify key material).
pub fn holder_enc(alg: Alg, idx: usize) -> EncodingKey {
    match alg {
        Alg::ES256 => EncodingKey::from_ec_pem(ESH_PRIV[idx].as_bytes()).expect("esh key"),
        Alg::EdDSA => EncodingKey::from_ed_pem(EDH_PRIV[idx].as_bytes()).expect("edh key"),
        Alg::HS256 => panic!("no HS256 holder keys"),
    }
}

pub fn holder_jwk_json(alg: Alg, idx: usize) -> serde_json::Value {
    let s = match alg {
        Alg::ES256 => ESH_JWK[idx],
        Alg::EdDSA => EDH_JWK[idx],
        Alg::HS256 => panic!("no HS256 holder keys"),
    };
    serde_json::from_str(s).expect("jwk json")
}

pub fn holder_jwk(alg: Alg, idx: usize) -> Jwk {
    serde_json::from_value(holder_jwk_json(alg, idx)).expect("jwk")
}

/// The JSON value the issuer embeds as `cnf.jwk` for this key: jsonwebtoken's own
/// serialisation of the parsed JWK (trusted base: jsonwebtoken's `Jwk` Serialize impl).
pub fn holder_jwk_json_canonical(alg: Alg, idx: usize) -> serde_json::Value {
    serde_json::to_value(holder_jwk(alg, idx)).expect("jwk to value")
}

/// Additional issuer algorithms exercised through the signing oracle only (the properties list
/// ES256 / EdDSA / HS256; RSA and P-384 tokens must of course obey the same rules).
pub const EXTRA_ALGS: [&str; 7] = ["RS256", "PS256", "RS512", "PS384", "ES384", "HS384", "HS512"];

pub const EXTRA_HMAC_SECRET: &[u8] = b"an-hmac-secret-of-sixty-four-octets-for-HS384-and-HS512-issuers!!";

pub fn extra_alg(name: &str) -> jsonwebtoken::Algorithm {
    use std::str::FromStr;
    jsonwebtoken::Algorithm::from_str(name.split('/').next().unwrap_or(name)).expect("known algorithm")
}
/// RSA issuer keys of other sizes than 2048 bits (signature segment 512 / 683 characters)
pub const BIG_RSA: [&str; 2] = ["RS256/3072", "PS256/4096"];

pub fn extra_enc(name: &str) -> EncodingKey {
    if name == "RS256/3072" {
        return EncodingKey::from_rsa_pem(include_str!("../keys/rsa3072_a.pem").as_bytes()).expect("rsa3072 key");
    }
    if name == "PS256/4096" {
        return EncodingKey::from_rsa_pem(include_str!("../keys/rsa4096_a.pem").as_bytes()).expect("rsa4096 key");
    }
    if name.starts_with("HS") {
        return EncodingKey::from_secret(EXTRA_HMAC_SECRET);
    }
    if name == "ES384" {
        EncodingKey::from_ec_pem(include_str!("../keys/es384_a.pem").as_bytes()).expect("es384 key")
    } else {
        EncodingKey::from_rsa_pem(include_str!("../keys/rsa_a.pem").as_bytes()).expect("rsa key")
    }
}
pub fn extra_dec(name: &str) -> DecodingKey {
    if name == "RS256/3072" {
        return DecodingKey::from_rsa_pem(include_str!("../keys/rsa3072_a.pub.pem").as_bytes()).expect("rsa3072 pub");
    }
    if name == "PS256/4096" {
        return DecodingKey::from_rsa_pem(include_str!("../keys/rsa4096_a.pub.pem").as_bytes()).expect("rsa4096 pub");
    }
    if name.starts_with("HS") {
        return DecodingKey::from_secret(EXTRA_HMAC_SECRET);
    }
    if name == "ES384" {
        DecodingKey::from_ec_pem(include_str!("../keys/es384_a.pub.pem").as_bytes()).expect("es384 pub")
    } else {
        DecodingKey::from_rsa_pem(include_str!("../keys/rsa_a.pub.pem").as_bytes()).expect("rsa pub")
    }
}
