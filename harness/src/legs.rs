//! Sanitizer / interpreter legs (thorough tier): ASan, valgrind memcheck, Miri for C07; TSan for C14.
use crate::evidence::{Ctx, Report};
use serde_json::json;

pub fn tsan_leg(_ctx: &Ctx, rep: &mut Report) {
    rep.extra.insert("tsan_leg".into(), json!({"status": "not built in this commit"}));
}

pub fn c07_legs(_ctx: &Ctx, rep: &mut Report) {
    rep.extra.insert("sanitizer_legs".into(), json!({"status": "not built in this commit"}));
}
