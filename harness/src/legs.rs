//! Sanitizer / interpreter legs (thorough tier, DESIGN.md §5): ASan, valgrind memcheck and Miri
//! for C07; ThreadSanitizer for C14. A leg whose toolchain step fails is reported as such in the
//! evidence and decides nothing; a sanitizer report decides only with an `sd_jwt_rs` frame.

use crate::evidence::{run_sharded_with, Ctx, Report, ShardEnd, Violation};
use serde_json::{json, Value};
use std::process::Command;
use std::time::Instant;

fn harness_dir(ctx: &Ctx) -> String {
    format!("{}/harness", ctx.verif_dir)
}

/// Build one flavour of the harness with the nightly toolchain. Returns the executable path.
fn build_flavour(ctx: &Ctx, rustflags: &str, build_std: bool, target_dir: &str) -> Result<String, String> {
    let mut cmd = Command::new("cargo");
    cmd.current_dir(harness_dir(ctx))
        .env("RUSTFLAGS", rustflags)
        .env("CARGO_NET_OFFLINE", "true")
        .args(["+nightly", "build", "--release", "--offline", "--target", "x86_64-unknown-linux-gnu", "--target-dir", target_dir]);
    if build_std {
        cmd.arg("-Zbuild-std");
    }
    let out = cmd.output().map_err(|e| format!("cannot run cargo: {e}"))?;
    if !out.status.success() {
        let t = String::from_utf8_lossy(&out.stderr);
        return Err(format!("build failed: {}", t.chars().rev().take(600).collect::<String>().chars().rev().collect::<String>()));
    }
    Ok(format!("{}/{}/x86_64-unknown-linux-gnu/release/sdjwt-mon", harness_dir(ctx), target_dir))
}

/// Split a sanitizer log into report blocks starting at lines containing `marker`.
fn report_blocks(text: &str, marker: &str) -> Vec<String> {
    let mut blocks: Vec<String> = vec![];
    let mut cur: Option<String> = None;
    for line in text.lines() {
        if line.contains(marker) {
            if let Some(b) = cur.take() {
                blocks.push(b);
            }
            cur = Some(String::new());
        }
        if let Some(b) = cur.as_mut() {
            if b.len() < 6000 {
                b.push_str(line);
                b.push('\n');
            }
        }
    }
    if let Some(b) = cur {
        blocks.push(b);
    }
    blocks
}

fn first_repo_frame(block: &str) -> Option<String> {
    block.lines().find(|l| l.contains("sd_jwt_rs::")).map(|l| {
        let i = l.find("sd_jwt_rs::").unwrap();
        l[i..].split_whitespace().next().unwrap_or("sd_jwt_rs::?").trim_end_matches([')', ',']).to_string()
    })
}

fn read_logs(dir: &str, prefix: &str) -> String {
    let mut all = String::new();
    if let Ok(rd) = std::fs::read_dir(dir) {
        for e in rd.flatten() {
            let name = e.file_name().to_string_lossy().to_string();
            if name.starts_with(prefix) {
                if let Ok(t) = std::fs::read_to_string(e.path()) {
                    all.push_str(&t);
                    all.push('\n');
                }
                let _ = std::fs::remove_file(e.path());
            }
        }
    }
    all
}

/// Turn report blocks into violations (in-repo frame) or a list of foreign reports.
fn judge_reports(rep: &mut Report, leg: &str, blocks: Vec<String>) -> Value {
    let mut in_repo: Vec<String> = vec![];
    let mut foreign: Vec<String> = vec![];
    let mut seen = std::collections::HashSet::new();
    for b in &blocks {
        let head = b.lines().next().unwrap_or("").trim().to_string();
        // strip pids / addresses from the headline so that signatures are stable
        let kind: String = head.split_whitespace().filter(|w| !w.starts_with("==") && !w.starts_with("0x") && !w.chars().all(|c| c.is_ascii_digit())).take(8).collect::<Vec<_>>().join(" ");
        match first_repo_frame(b) {
            Some(frame) => {
                if seen.insert(format!("{kind}|{frame}")) {
                    in_repo.push(format!("{kind} @ {frame}"));
                    rep.local.violate(Violation {
                        subcheck: format!("{leg}-report"),
                        class: frame.clone(),
                        observed: kind.clone(),
                        case: 0,
                        detail: json!({"leg": leg, "report": b.chars().take(4000).collect::<String>()}),
                    });
                }
            }
            None => {
                if seen.insert(kind.clone()) {
                    foreign.push(kind);
                }
            }
        }
    }
    json!({"report_blocks": blocks.len(), "with_sd_jwt_rs_frame": in_repo, "without_repo_frame_listed_not_judged": foreign})
}

fn shard_summary(ends: &[ShardEnd]) -> Value {
    json!({
        "shards": ends.len(),
        "shards_ok": ends.iter().filter(|e| e.ok).count(),
        "abnormal": ends.iter().filter(|e| !e.ok).map(|e| json!({"shard": e.shard, "code": e.code, "signal": e.signal, "stderr_tail": e.stderr_tail.chars().rev().take(400).collect::<String>().chars().rev().collect::<String>()})).collect::<Vec<_>>(),
    })
}

pub fn c07_legs(ctx: &Ctx, rep: &mut Report) {
    let logs = format!("{}/.partials", ctx.out_dir);
    let _ = std::fs::create_dir_all(&logs);
    let mut legs = serde_json::Map::new();
    // VERIF_LEGS=asan,miri restricts the legs (debugging aid); default: all
    let only = std::env::var("VERIF_LEGS").unwrap_or_default();
    let want = |name: &str| only.is_empty() || only.split(',').any(|x| x == name);

    // ---- ASan
    if want("asan") {
        let t0 = Instant::now();
        match build_flavour(ctx, "-Zsanitizer=address -Cforce-frame-pointers=yes", false, "target-asan") {
            Err(e) => {
                legs.insert("asan".into(), json!({"status": "toolchain step failed; leg decides nothing", "error": e}));
            }
            Ok(exe) => {
                let env = vec![("ASAN_OPTIONS".to_string(), format!("halt_on_error=1:abort_on_error=1:detect_leaks=0:log_path={logs}/asanlog"))];
                let (l, ends) = run_sharded_with(ctx, 16, 1, &[exe], &env, "asan", 900);
                let text = read_logs(&logs, "asanlog");
                let verdict = judge_reports(rep, "asan", report_blocks(&text, "ERROR: AddressSanitizer"));
                rep.local.add("leg.asan.api-calls", l.evals);
                let panics = l.violation_count;
                for v in l.violations {
                    rep.local.violate(v);
                }
                legs.insert("asan".into(), json!({"status": "run", "api_calls": l.evals, "counters": l.counters, "panics_seen": panics, "reports": verdict, "children": shard_summary(&ends), "wall_s": t0.elapsed().as_secs()}));
            }
        }
    }
    // ---- valgrind memcheck on the plain release binary
    if want("valgrind") {
        let t0 = Instant::now();
        let have = Command::new("valgrind").arg("--version").output().map(|o| o.status.success()).unwrap_or(false);
        if !have {
            legs.insert("valgrind".into(), json!({"status": "valgrind not available; leg decides nothing"}));
        } else {
            let me = std::env::current_exe().unwrap().to_string_lossy().to_string();
            let prefix: Vec<String> = vec!["valgrind".into(), "--quiet".into(), "--error-exitcode=0".into(), "--leak-check=no".into(), format!("--log-file={logs}/vglog.%p"), me];
            let (l, ends) = run_sharded_with(ctx, 16, 1, &prefix, &[], "valgrind", 1800);
            let text = read_logs(&logs, "vglog");
            // memcheck error kinds
            let mut blocks = vec![];
            for m in ["Invalid read", "Invalid write", "Invalid free", "Mismatched free", "Conditional jump or move depends on uninitialised", "Use of uninitialised value", "Source and destination overlap", "Syscall param"] {
                blocks.extend(report_blocks(&text, m).into_iter().map(|b| {
                    // a block runs until the next blank "==pid==" line
                    let mut out = String::new();
                    for line in b.lines() {
                        let body = line.splitn(3, "==").nth(2).unwrap_or("").trim();
                        if body.is_empty() && !out.is_empty() {
                            break;
                        }
                        out.push_str(line);
                        out.push('\n');
                    }
                    out
                }));
            }
            let verdict = judge_reports(rep, "valgrind", blocks);
            rep.local.add("leg.valgrind.api-calls", l.evals);
            let panics = l.violation_count;
            for v in l.violations {
                rep.local.violate(v);
            }
            legs.insert("valgrind".into(), json!({"status": "run", "api_calls": l.evals, "counters": l.counters, "panics_seen": panics, "reports": verdict, "children": shard_summary(&ends), "wall_s": t0.elapsed().as_secs()}));
        }
    }
    // ---- Miri on the holder path (the only one that does not cross FFI)
    if want("miri") {
        let t0 = Instant::now();
        let seeds = format!("{logs}/miri-seeds-{}.json", std::process::id());
        if !crate::mon::c07::write_miri_seeds(&seeds) {
            legs.insert("miri".into(), json!({"status": "could not produce seed tokens natively; leg decides nothing"}));
        } else {
            let cases = crate::mon::c07::cases_for_leg(ctx, "miri");
            let shards = 16u64;
            let spawn = |k: u64, n: u64, cases: u64, partial: &str| {
                Command::new("cargo")
                    .current_dir(harness_dir(ctx))
                    .env("MIRIFLAGS", "-Zmiri-disable-isolation")
                    .env("CARGO_NET_OFFLINE", "true")
                    .args(["+nightly", "miri", "run", "--offline", "--target-dir", "target-miri", "--", "C07-miri", &ctx.seed.to_string(), &k.to_string(), &n.to_string(), &cases.to_string(), &seeds, partial])
                    .stdout(std::process::Stdio::null())
                    .stderr(std::process::Stdio::piped())
                    .spawn()
            };
            // build once (zero cases), then the shards in parallel
            let warm = format!("{logs}/miri-warm-{}.json", std::process::id());
            // (shard 1 of 1 matches no case: this run only compiles and starts the interpreter)
            let built = spawn(1, 1, 0, &warm).and_then(|c| c.wait_with_output()).map(|o| o.status.success()).unwrap_or(false);
            let _ = std::fs::remove_file(&warm);
            if !built {
                legs.insert("miri".into(), json!({"status": "cargo miri could not build/run the harness; leg decides nothing"}));
            } else {
                let mut kids = vec![];
                for k in 0..shards {
                    let partial = format!("{logs}/miri-{}-{k}.json", std::process::id());
                    kids.push((k, partial.clone(), spawn(k, shards, cases, &partial).ok()));
                }
                let mut calls = 0u64;
                let mut counters = std::collections::BTreeMap::new();
                let mut ub_blocks = vec![];
                let mut unsupported = 0u64;
                let mut ok_shards = 0u64;
                for (_k, partial, child) in kids {
                    if let Some(c) = child {
                        if let Ok(o) = c.wait_with_output() {
                            let err = String::from_utf8_lossy(&o.stderr).to_string();
                            if err.contains("unsupported operation") {
                                unsupported += 1;
                            }
                            ub_blocks.extend(report_blocks(&err, "error: Undefined Behavior"));
                            ub_blocks.extend(report_blocks(&err, "error: memory leaked"));
                            ub_blocks.extend(report_blocks(&err, "Data race detected"));
                            if o.status.success() {
                                ok_shards += 1;
                            }
                        }
                    }
                    if let Some(v) = std::fs::read_to_string(&partial).ok().and_then(|t| serde_json::from_str::<Value>(&t).ok()) {
                        let l = crate::evidence::Local::from_json(&v);
                        calls += l.evals;
                        for (k, x) in &l.counters {
                            *counters.entry(k.clone()).or_insert(0u64) += x;
                        }
                        for v in l.violations {
                            rep.local.violate(v);
                        }
                    }
                    let _ = std::fs::remove_file(&partial);
                }
                let verdict = judge_reports(rep, "miri", ub_blocks);
                rep.local.add("leg.miri.api-calls", calls);
                legs.insert("miri".into(), json!({"status": "run", "scope": "SDJWTHolder::new + create_presentation without key binding", "api_calls": calls, "counters": counters, "reports": verdict, "shards_ok": ok_shards, "shards": shards, "unsupported_operation_aborts": unsupported, "wall_s": t0.elapsed().as_secs()}));
            }
        }
        let _ = std::fs::remove_file(&seeds);
    }
    rep.extra.insert("sanitizer_legs".into(), Value::Object(legs));
}

pub fn tsan_leg(ctx: &Ctx, rep: &mut Report) {
    let logs = format!("{}/.partials", ctx.out_dir);
    let _ = std::fs::create_dir_all(&logs);
    let t0 = Instant::now();
    match build_flavour(ctx, "-Zsanitizer=thread", true, "target-tsan") {
        Err(e) => {
            rep.extra.insert("tsan_leg".into(), json!({"status": "toolchain step failed; leg decides nothing", "error": e}));
        }
        Ok(exe) => {
            let env = vec![("TSAN_OPTIONS".to_string(), format!("halt_on_error=0:exitcode=0:log_path={logs}/tsanlog"))];
            let mut c = ctx.clone();
            c.scale = ctx.scale * 0.125;
            let (l, ends) = run_sharded_with(&c, 1, 16, &[exe], &env, "tsan", 3600);
            let text = read_logs(&logs, "tsanlog");
            let verdict = judge_reports(rep, "tsan", report_blocks(&text, "WARNING: ThreadSanitizer"));
            rep.local.add("leg.tsan.credentials", l.evals);
            for v in l.violations {
                rep.local.violate(v);
            }
            rep.extra.insert("tsan_leg".into(), json!({"status": "run", "credentials_issued_under_tsan": l.evals, "counters": l.counters, "reports": verdict, "children": shard_summary(&ends), "wall_s": t0.elapsed().as_secs()}));
        }
    }
}

// ------------------------------------------------------------------------------------------
// coverage evidence (thorough tier): which regions of /repo/src/*.rs did this property's
// workload execute? Evidence only, with one gate: an anchored FILE that was never executed
// makes the run INCONCLUSIVE (function names are looked up leniently and never gate).

fn demangle_legacy(name: &str) -> String {
    let s = match name.strip_prefix("_ZN") {
        Some(s) => s,
        None => return name.to_string(),
    };
    let b = s.as_bytes();
    let mut i = 0;
    let mut parts: Vec<String> = vec![];
    while i < b.len() && b[i].is_ascii_digit() {
        let mut n = 0usize;
        while i < b.len() && b[i].is_ascii_digit() {
            n = n * 10 + (b[i] - b'0') as usize;
            i += 1;
        }
        if i + n > b.len() {
            break;
        }
        parts.push(s[i..i + n].to_string());
        i += n;
    }
    if let Some(last) = parts.last() {
        if last.len() == 17 && last.starts_with('h') {
            parts.pop();
        }
    }
    parts.join("::").replace("$LT$", "<").replace("$GT$", ">").replace("$u20$", " ").replace("$C$", ",").replace("..", "::")
}

/// Rust v0 / legacy symbol -> readable path: LLVM's llvm-cxxfilt (>= 13 knows Rust v0) if it is
/// installed, else the legacy splitter; an unreadable name is still reported, never a failure.
fn demangle(name: &str) -> String {
    use std::io::Write;
    for dm in ["llvm-cxxfilt", "llvm-cxxfilt-14"] {
        if let Ok(mut c) = Command::new(dm).stdin(std::process::Stdio::piped()).stdout(std::process::Stdio::piped()).stderr(std::process::Stdio::null()).spawn() {
            if let Some(mut i) = c.stdin.take() {
                let _ = writeln!(i, "{name}");
            }
            if let Ok(o) = c.wait_with_output() {
                let t = String::from_utf8_lossy(&o.stdout).trim().to_string();
                if !t.is_empty() && t != name {
                    return t;
                }
            }
        }
    }
    demangle_legacy(name)
}

fn llvm_tool(name: &str) -> Option<String> {
    let out = Command::new("rustc").args(["+nightly", "--print", "sysroot"]).output().ok()?;
    let root = String::from_utf8_lossy(&out.stdout).trim().to_string();
    let p = format!("{root}/lib/rustlib/x86_64-unknown-linux-gnu/bin/{name}");
    if std::path::Path::new(&p).exists() {
        Some(p)
    } else {
        None
    }
}

pub fn coverage_leg(ctx: &Ctx, rep: &mut Report) {
    let t0 = Instant::now();
    let dir = format!("{}/.partials/cov-{}-{}", ctx.out_dir, ctx.property, std::process::id());
    let _ = std::fs::create_dir_all(&dir);
    let fail = |rep: &mut Report, why: String| {
        rep.extra.insert("coverage".into(), json!({"status": format!("toolchain step failed; evidence only, decides nothing: {why}")}));
    };
    let (cov, profdata) = match (llvm_tool("llvm-cov"), llvm_tool("llvm-profdata")) {
        (Some(a), Some(b)) => (a, b),
        _ => return fail(rep, "llvm-cov / llvm-profdata not found in the nightly sysroot".into()),
    };
    let mock = ctx.property == "C16";
    let target_dir = if mock { "target-cov-mock" } else { "target-cov" };
    let mut cmd = Command::new("cargo");
    cmd.current_dir(harness_dir(ctx))
        .env("RUSTFLAGS", "-Cinstrument-coverage")
        // instrumented proc-macros / build scripts run during the build: keep their profiles out of /repo
        .env("LLVM_PROFILE_FILE", format!("{dir}/build-%p-%m.profraw"))
        .env("CARGO_NET_OFFLINE", "true")
        .args(["+nightly", "build", "--release", "--offline", "--target-dir", target_dir]);
    if mock {
        cmd.args(["--features", "mock"]);
    }
    match cmd.output() {
        Ok(o) if o.status.success() => {}
        Ok(o) => return fail(rep, String::from_utf8_lossy(&o.stderr).chars().rev().take(400).collect::<String>().chars().rev().collect()),
        Err(e) => return fail(rep, e.to_string()),
    }
    let exe = format!("{}/{}/release/sdjwt-mon", harness_dir(ctx), target_dir);
    let partial = format!("{dir}/partial.json");
    let scale = match ctx.property.as_str() {
        "C02" => 1.0,
        "C14" => 0.2,
        _ => 0.05,
    };
    let run = Command::new(&exe)
        .args([ctx.property.as_str(), "quick"])
        .env("VERIF_SEED", ctx.seed.to_string())
        .env("VERIF_SCALE", scale.to_string())
        .env("VERIF_LEG", "cov")
        .env("VERIF_PARTIAL", &partial)
        .env("VERIF_OUT", &dir)
        .env("LLVM_PROFILE_FILE", format!("{dir}/c-%p-%m.profraw"))
        .stdout(std::process::Stdio::null())
        .stderr(std::process::Stdio::null())
        .status();
    if !run.map(|s| s.success()).unwrap_or(false) {
        let _ = std::fs::remove_dir_all(&dir);
        return fail(rep, "instrumented workload did not run to completion".into());
    }
    let raws: Vec<String> = std::fs::read_dir(&dir)
        .map(|rd| rd.flatten().map(|e| e.path().to_string_lossy().to_string()).filter(|p| p.ends_with(".profraw") && !p.contains("/build-")).collect())
        .unwrap_or_default();
    let merged = format!("{dir}/cov.profdata");
    let ok = Command::new(&profdata).arg("merge").arg("-sparse").args(&raws).args(["-o", &merged]).status().map(|s| s.success()).unwrap_or(false);
    if !ok {
        let _ = std::fs::remove_dir_all(&dir);
        return fail(rep, "llvm-profdata merge failed".into());
    }
    let out = Command::new(&cov).args(["export", "--format=text", "-instr-profile", &merged, &exe, "/repo/src"]).output();
    let _ = std::fs::remove_dir_all(&dir);
    let v: Value = match out.ok().and_then(|o| serde_json::from_slice(&o.stdout).ok()) {
        Some(v) => v,
        None => return fail(rep, "llvm-cov export produced no JSON".into()),
    };
    let data = &v["data"][0];
    let mut files = serde_json::Map::new();
    for f in data["files"].as_array().cloned().unwrap_or_default() {
        let name = f["filename"].as_str().unwrap_or("").to_string();
        if let Some(rel) = name.strip_prefix("/repo/") {
            let s = &f["summary"];
            files.insert(rel.to_string(), json!({"regions": s["regions"]["count"], "regions_covered": s["regions"]["covered"], "lines": s["lines"]["count"], "lines_covered": s["lines"]["covered"], "functions": s["functions"]["count"], "functions_covered": s["functions"]["covered"]}));
        }
    }
    // per function (in-repo only)
    let mut funcs: std::collections::BTreeMap<String, (u64, u64, u64)> = std::collections::BTreeMap::new();
    for f in data["functions"].as_array().cloned().unwrap_or_default() {
        let in_repo = f["filenames"].as_array().map(|a| a.iter().any(|x| x.as_str().map(|s| s.starts_with("/repo/src/")).unwrap_or(false))).unwrap_or(false);
        if !in_repo {
            continue;
        }
        let raw = f["name"].as_str().unwrap_or("");
        if !raw.contains("sd_jwt_rs") {
            continue;
        }
        let name = demangle(raw);
        let regions = f["regions"].as_array().cloned().unwrap_or_default();
        let total = regions.len() as u64;
        let covered = regions.iter().filter(|r| r[4].as_u64().unwrap_or(0) > 0).count() as u64;
        let e = funcs.entry(name).or_insert((0, 0, 0));
        e.0 += f["count"].as_u64().unwrap_or(0);
        e.1 = e.1.max(total);
        e.2 = e.2.max(covered);
    }
    // anchored files of this property
    let mut anchored: Vec<String> = vec![];
    if let Ok(t) = std::fs::read_to_string(format!("{}/properties.jsonl", ctx.verif_dir)) {
        for line in t.lines() {
            if let Ok(p) = serde_json::from_str::<Value>(line) {
                if p["id"] == ctx.property.as_str() {
                    for f in p["anchors"]["files"].as_array().cloned().unwrap_or_default() {
                        if let Some(s) = f.as_str() {
                            if s.starts_with("src/") {
                                anchored.push(s.to_string());
                            }
                        }
                    }
                }
            }
        }
    }
    let mut never: Vec<String> = vec![];
    for a in &anchored {
        let covered = files.get(a).and_then(|f| f["regions_covered"].as_u64()).unwrap_or(0);
        if covered == 0 {
            never.push(a.clone());
        }
    }
    for a in &never {
        rep.inconclusive.push(format!("coverage gate: no region of anchored file {a} was executed by this property's workload"));
    }
    let fl: Vec<Value> = funcs.iter().map(|(n, (calls, total, cov))| json!({"fn": n, "calls": calls, "regions": total, "regions_covered": cov})).collect();
    rep.extra.insert(
        "coverage".into(),
        json!({"status": "run", "workload": format!("{} quick at VERIF_SCALE={scale} under -Cinstrument-coverage", ctx.property), "anchored_files": anchored,
               "anchored_files_never_executed": never, "files": files, "functions_in_repo": fl, "wall_s": t0.elapsed().as_secs()}),
    );
}
