//! A `log` logger that is switched on and off per case and per thread.
//!
//! The library logs through the `log` facade (`debug!` for skipped decoys, `trace!` for the issued
//! SD-JWT); with no logger installed those call sites — and anything guarded by `log_enabled!` — never
//! run. A host application may well install a logger at Debug or Trace level, so every fourth case runs
//! with one: the logger's `enabled()` consults a thread-local flag that is a pure function of the case
//! number, which keeps a case's behaviour independent of what other worker threads are doing.
use std::cell::Cell;
use std::sync::atomic::{AtomicU64, Ordering};

thread_local! {
    static ON: Cell<bool> = const { Cell::new(false) };
}
static RECORDS: AtomicU64 = AtomicU64::new(0);
static BYTES: AtomicU64 = AtomicU64::new(0);

struct CaseLogger;
static LOGGER: CaseLogger = CaseLogger;

impl log::Log for CaseLogger {
    fn enabled(&self, _: &log::Metadata) -> bool {
        ON.with(|c| c.get())
    }
    fn log(&self, rec: &log::Record) {
        if ON.with(|c| c.get()) {
            // format the arguments as a real logger would (a Debug impl that panics would surface here)
            let text = format!("{}", rec.args());
            RECORDS.fetch_add(1, Ordering::Relaxed);
            BYTES.fetch_add(text.len() as u64, Ordering::Relaxed);
        }
    }
    fn flush(&self) {}
}

pub fn install() {
    if log::set_logger(&LOGGER).is_ok() {
        log::set_max_level(log::LevelFilter::Trace);
    }
}

/// Every fourth case (case % 4 == 3) runs with the logger enabled at Trace level.
pub fn for_case(case: u64) {
    ON.with(|c| c.set(case % 4 == 3));
}

pub fn observed() -> (u64, u64) {
    (RECORDS.load(Ordering::Relaxed), BYTES.load(Ordering::Relaxed))
}
