/* LD_PRELOAD virtual clock: shifts CLOCK_REALTIME (and time()/gettimeofday) by
 * VCLOCK_OFFSET seconds. Used by the thorough tier of C09 only. */
#define _GNU_SOURCE
#include <dlfcn.h>
#include <stdio.h>
#include <stdlib.h>
#include <sys/time.h>
#include <time.h>

/* offset = VCLOCK_OFFSET, or (if VCLOCK_OFFSET_FILE is set) the number in that file, re-read
 * on every call so that a process can move its own clock while it runs */
static long long off(void) {
  const char *f = getenv("VCLOCK_OFFSET_FILE");
  if (f) {
    FILE *h = fopen(f, "r");
    if (h) {
      long long v = 0;
      if (fscanf(h, "%lld", &v) != 1) v = 0;
      fclose(h);
      return v;
    }
  }
  const char *e = getenv("VCLOCK_OFFSET");
  return e ? atoll(e) : 0;
}

int clock_gettime(clockid_t c, struct timespec *ts) {
  static int (*real)(clockid_t, struct timespec *) = 0;
  if (!real) real = (int (*)(clockid_t, struct timespec *))dlsym(RTLD_NEXT, "clock_gettime");
  int r = real(c, ts);
  if (r == 0 && c == CLOCK_REALTIME) ts->tv_sec += off();
  return r;
}

time_t time(time_t *t) {
  struct timespec ts;
  clock_gettime(CLOCK_REALTIME, &ts);
  if (t) *t = ts.tv_sec;
  return ts.tv_sec;
}

int gettimeofday(struct timeval *tv, void *tz) {
  (void)tz;
  struct timespec ts;
  clock_gettime(CLOCK_REALTIME, &ts);
  if (tv) { tv->tv_sec = ts.tv_sec; tv->tv_usec = ts.tv_nsec / 1000; }
  return 0;
}
