#!/usr/bin/env python3
"""Splice the detection summary of selftest/MATRIX.json into DESIGN.md (§13)."""
import json, os, collections
ROOT = os.path.dirname(os.path.dirname(os.path.abspath(__file__)))
res = json.load(open(os.path.join(ROOT, "selftest/MATRIX.json")))
lines = []
groups = collections.OrderedDict([("revert", "reverse patches of the 14 fixes"), ("mutant", "own mutants"), ("seeded", "sub-agent seeded changes")])
for g, title in groups.items():
    rows = [r for r in res if r["id"].startswith(g)]
    if not rows:
        continue
    tgt = sum(1 for r in rows if r.get("result", {}).get(r["target"]) == "FIRES")
    anyc = sum(1 for r in rows if "FIRES" in r.get("result", {}).values())
    lines.append(f"**{title}: {len(rows)} changes, {tgt} caught by the target property's check, {anyc} by at least one check.**\n")
    lines.append("| change | target | target check | other checks firing | first signature |")
    lines.append("|---|---|---|---|---|")
    for r in rows:
        rr = r.get("result", {})
        others = [p for p, v in rr.items() if p != r["target"] and v == "FIRES"]
        sig = (r.get("signatures") or [""])[0] if rr.get(r["target"]) == "FIRES" else ""
        if not sig and others:
            sig = (r.get("other_signatures", {}).get(others[0]) or [""])[0]
        tier = " (" + r["tier"] + ")" if r.get("tier") else ""
        lines.append(f"| {r['id'].split('-', 1)[1]} | {r['target']} | {rr.get(r['target'], r.get('error', '?'))}{tier} | {' '.join(others)} | {sig[:100].replace('|', '/')} |")
    lines.append("")
p = os.path.join(ROOT, "DESIGN.md")
s = open(p).read()
a = s.index("<!-- MATRIX-BEGIN -->") + len("<!-- MATRIX-BEGIN -->")
b = s.index("<!-- MATRIX-END -->")
open(p, "w").write(s[:a] + "\n" + "\n".join(lines) + "\n" + s[b:])
print("spliced", len(res), "rows")
