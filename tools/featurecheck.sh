#!/bin/sh
# DESIGN.md §2.3: the harness must not widen dependency features of the library under test.
# Compare the resolved features of every package in sd-jwt-rs's normal dependency closure
# between a /repo-only resolution and the harness resolution.
set -eu
cd "$(dirname "$0")/.."
export CARGO_NET_OFFLINE=true
A="$(mktemp)"; B="$(mktemp)"
(cd /repo && cargo tree --offline -e no-dev --prefix none -f '{p}|{f}' | sed 's/ (\*)$//' | sort -u) > "$A"
(cd harness && cargo tree --offline -e no-dev -p sd-jwt-rs --prefix none -f '{p}|{f}' | sed 's/ (\*)$//' | sort -u) > "$B"
if ! diff "$A" "$B" >/dev/null; then
  echo "featurecheck: resolved features differ between /repo and the harness build:"
  diff "$A" "$B" || true
  rm -f "$A" "$B"
  exit 1
fi
n=$(wc -l < "$A")
rm -f "$A" "$B"
echo "featurecheck ok ($n packages, identical resolved features)"
