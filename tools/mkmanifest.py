#!/usr/bin/env python3
"""Regenerates MANIFEST.json from the table below (single source of truth for the check list)."""
import json, os, subprocess
ROOT = os.path.dirname(os.path.dirname(os.path.abspath(__file__)))
CHECKS = json.load(open(os.path.join(ROOT, "tools", "checks.json")))
fixes = subprocess.check_output(["git", "-C", "/repo", "log", "--reverse", "--format=%h %s", "46a8800..HEAD"], text=True).strip().splitlines()
m = {
 "version": 1,
 "setup_cmd": "./setup.sh",
 "hooks": {
  "guard": "none",
  "enable": "no source hooks: every monitor attaches at the public API of sd-jwt-rs (DESIGN.md §2.2); the harness crate /verif/harness depends on /repo by path and is rebuilt by every check",
  "baseline_off_cmd": "cd /repo && cargo test --workspace --no-fail-fast --offline",
  "source_commits": [],
  "add_only": True,
 },
 "engines": [
  {"name": "sdjwt-mon", "path": "harness", "serves_properties": [c["property_id"] for c in CHECKS["checks"]],
   "kind_free_text": "Rust harness: generated/hostile workloads through the public API, boundary recorder, independent reference model and specification verifier as oracles, fault generators; sanitizer legs (ASan, valgrind memcheck, Miri, TSan) in thorough tier"},
 ],
 "checks": [],
 "not_applicable": CHECKS.get("not_applicable", []),
 "notes": "Runtime monitoring. Exit 0 held-on-observed / 1 VIOLATION / 2 INCONCLUSIVE (never on the unchanged tree). /repo carries %d 'fix:' commits (see known_findings.json); no hook commits." % len(fixes),
}
for c in CHECKS["checks"]:
    pid = c["property_id"]
    m["checks"].append({
        "property_id": pid,
        "quick_cmd": f"./check {pid} quick",
        "thorough_cmd": f"./check {pid} thorough",
        "evidence_file": f"/verif/evidence/{pid}.json",
        "replay_cmd_template": f"./check {pid} --replay {{path}}",
        "engine": "sdjwt-mon",
        "level_claimed": {"category": c["level"], "text": c["text"], "design_ref": c["design_ref"]},
        "level_note": c["note"],
        "technique": c["technique"],
    })
json.dump(m, open(os.path.join(ROOT, "MANIFEST.json"), "w"), indent=1)
print("MANIFEST.json:", len(m["checks"]), "checks,", len(m["not_applicable"]), "not_applicable")
