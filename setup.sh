#!/bin/sh
# Run once after a fresh restore, offline: build the harness flavours from files on disk.
set -eu
cd "$(dirname "$0")"
export CARGO_NET_OFFLINE=true
(cd harness && cargo build --release --offline --target-dir target)
(cd harness && cargo build --release --offline --features mock --target-dir target-mock)
# LD_PRELOAD virtual clock for C09 (optional: the leg is skipped if this fails)
cc -shared -fPIC -O1 -o shim/libvclock.so shim/vclock.c -ldl || echo "setup: vclock shim not built"
sh tools/featurecheck.sh
echo "setup ok"
