#!/usr/bin/env python3
"""Detection matrix: apply every recorded change (reverse patches of the fixes, own mutants,
sub-agent seeded changes) to a repository copy, run the quick check of its target property, and
if that stays silent every other property's quick check; write selftest/MATRIX.json and
selftest/MATRIX.md.  Usage (scratch copy, leaves /repo alone):

    SELFTEST_REPO=/tmp/st/repo python3 selftest/matrix.py [id-substring ...]

The copy of /verif it runs from must have harness/Cargo.toml pointing at SELFTEST_REPO."""
import glob, json, os, subprocess, sys, time

ROOT = os.path.dirname(os.path.dirname(os.path.abspath(__file__)))
REPO = os.environ.get("SELFTEST_REPO", "/repo")
ALL = ["C%02d" % i for i in range(1, 17)]


def sh(cmd, env=None):
    return subprocess.run(cmd, shell=True, capture_output=True, text=True, env=env)


def entries():
    out = []
    kf = json.load(open(os.path.join(ROOT, "known_findings.json")))["findings"]
    for f in sorted(glob.glob(os.path.join(ROOT, "selftest/reverts/*.diff"))):
        n = int(os.path.basename(f)[:2])
        rec = kf[n - 1]
        out.append(dict(id="revert-" + rec["id"], kind="revert of fix " + rec["commit"], patch=f, target=rec["property"], what=rec["what"]))
    idx = json.load(open(os.path.join(ROOT, "selftest/mutants/index.json")))
    for x in idx:
        out.append(dict(id="mutant-" + x["id"], kind="own mutant", patch=os.path.join(ROOT, "selftest/mutants", x["id"] + ".diff"),
                        target=x["props"][0], also=x["props"][1:], what=x.get("note") or x["id"], thorough_scale=x.get("thorough_scale")))
    for d in sorted(glob.glob(os.path.join(ROOT, "seeded/C*-*"))):
        if not os.path.isdir(d):
            continue
        m = json.load(open(os.path.join(d, "meta.json")))
        out.append(dict(id="seeded-" + os.path.basename(d), kind="sub-agent seeded change", patch=os.path.join(d, "patch.diff"),
                        target=m["property"], what=m.get("summary", ""), needs=m.get("needs_to_manifest", "")))
    return out


def run_check(p, env, thorough_scale=None):
    if thorough_scale:
        c = sh(f"{ROOT}/check {p} thorough", env=dict(env, VERIF_SCALE=str(thorough_scale)))
    else:
        c = sh(f"{ROOT}/check {p} quick", env=env)
    sig = [l.strip()[11:] for l in c.stdout.splitlines() if "signature:" in l][:3]
    return {0: "silent", 1: "FIRES"}.get(c.returncode, f"rc{c.returncode}"), sig


def main():
    filt = sys.argv[1:]
    env = dict(os.environ, VERIF_OUT="/tmp/selftest-out-matrix")
    os.makedirs(env["VERIF_OUT"], exist_ok=True)
    res = []
    for e in entries():
        if filt and not any(f in e["id"] for f in filt):
            continue
        if sh(f"git -C {REPO} status --porcelain").stdout.strip():
            print("repository copy dirty; abort")
            break
        t0 = time.time()
        row = dict(id=e["id"], kind=e["kind"], target=e["target"], what=e["what"], needs=e.get("needs", ""))
        try:
            if sh(f"git -C {REPO} apply {e['patch']}").returncode != 0:
                row["error"] = "patch does not apply"
            else:
                r, sig = run_check(e["target"], env, e.get("thorough_scale"))
                row["result"] = {e["target"]: r}
                row["signatures"] = sig
                if e.get("thorough_scale"):
                    row["tier"] = f"thorough at VERIF_SCALE={e['thorough_scale']}"
                if r != "FIRES":
                    for p in ALL:
                        if p == e["target"]:
                            continue
                        r2, sig2 = run_check(p, env)
                        row["result"][p] = r2
                        if r2 == "FIRES":
                            row.setdefault("other_signatures", {})[p] = sig2[:1]
        finally:
            sh(f"git -C {REPO} checkout -- .")
        row["wall_s"] = round(time.time() - t0, 1)
        res.append(row)
        print(json.dumps({k: row[k] for k in ("id", "result") if k in row}), flush=True)
    if filt and os.path.exists(os.path.join(ROOT, "selftest/MATRIX.json")):
        # partial run: merge the new rows into the existing matrix (by id), keep catalogue order
        old = {r["id"]: r for r in json.load(open(os.path.join(ROOT, "selftest/MATRIX.json")))}
        for r in res:
            old[r["id"]] = r
        order = [e["id"] for e in entries()]
        res = [old[i] for i in order if i in old]
    json.dump(res, open(os.path.join(ROOT, "selftest/MATRIX.json"), "w"), indent=1)
    with open(os.path.join(ROOT, "selftest/MATRIX.md"), "w") as f:
        f.write("| change | target | target check | other checks that fire | first signature |\n|---|---|---|---|---|\n")
        for r in res:
            rr = r.get("result", {})
            others = [p for p, v in rr.items() if p != r["target"] and v == "FIRES"]
            sig = (r.get("signatures") or [""])[0] if rr.get(r["target"]) == "FIRES" else ""
            if not sig and others:
                sig = (r.get("other_signatures", {}).get(others[0]) or [""])[0]
            f.write(f"| {r['id']} | {r['target']} | {rr.get(r['target'], r.get('error', '?'))} | {' '.join(others)} | {sig[:110].replace('|', '/')} |\n")
    det = sum(1 for r in res if "FIRES" in r.get("result", {}).values())
    print(f"{det}/{len(res)} changes detected by at least one quick check")


if __name__ == "__main__":
    main()
