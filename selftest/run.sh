#!/bin/sh
# Monitor self-test: apply one patch to /repo, run the quick checks of the given properties,
# report which of them fire, and ALWAYS restore /repo afterwards.
#   selftest/run.sh <patch.diff> <Cxx> [<Cyy> ...]
# Output goes to $VERIF_OUT (default /tmp/selftest-out) so committed evidence is untouched.
set -u
PATCH="$(readlink -f "$1")"; shift
V="$(cd "$(dirname "$0")/.." && pwd)"
export VERIF_OUT="${VERIF_OUT:-/tmp/selftest-out}"
mkdir -p "$VERIF_OUT"
if [ -n "$(git -C /repo status --porcelain)" ]; then echo "selftest: /repo is dirty, refusing"; exit 3; fi
restore() { git -C /repo checkout -- . ; }
trap restore EXIT INT TERM
if ! git -C /repo apply "$PATCH"; then echo "selftest: patch does not apply: $PATCH"; exit 3; fi
R=""
for P in "$@"; do
  OUT="$("$V/check" "$P" "${SELFTEST_TIER:-quick}" 2>&1)"; RC=$?
  SIG="$(printf '%s\n' "$OUT" | grep -m3 'signature:' | sed 's/^ *signature: //' | tr '\n' ';' | cut -c1-260)"
  case $RC in
    1) R="$R $P=FIRES"; echo "  $P FIRES: $SIG";;
    0) R="$R $P=silent"; echo "  $P silent";;
    *) R="$R $P=rc$RC"; echo "  $P rc=$RC: $(printf '%s\n' "$OUT" | tail -n 3 | tr '\n' ' ' | cut -c1-300)";;
  esac
done
echo "RESULT $(basename "$PATCH"):$R"
