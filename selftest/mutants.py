#!/usr/bin/env python3
"""Own mutants for the monitor self-test (DESIGN.md §2.8). Each entry: id, properties expected to
fire, file, old text, new text. `python3 selftest/mutants.py gen` writes selftest/mutants/<id>.diff
(unified diffs against /repo HEAD); `python3 selftest/mutants.py run [id...]` applies each to /repo,
runs the repository test suite (must still pass), runs the quick checks of the expected properties,
prints a table and ALWAYS restores /repo."""
import difflib, json, os, subprocess, sys

ROOT = os.path.dirname(os.path.dirname(os.path.abspath(__file__)))
REPO = os.environ.get("SELFTEST_REPO", "/repo")  # a scratch copy can be used together with a copy of /verif
OUT = os.path.join(ROOT, "selftest", "mutants")

M = []
def m(id, props, file, old, new, note="", thorough_scale=None):
    M.append(dict(id=id, props=props, file=file, old=old, new=new, note=note, thorough_scale=thorough_scale))

# ---------------------------------------------------------------- C01
m("c01a-verifier-keeps-sd-alg", ["C01"], "src/verifier.rs",
  "            .filter(|(key, _)| key != DIGEST_ALG_KEY)\n", "", "top-level _sd_alg survives in verified claims")
m("c01b-issuer-hides-iat", ["C01", "C05"], "src/issuer.rs",
  'vec!["iss", "iat", "exp"]', 'vec!["iss", "exp"]', "iat becomes selectively disclosable")
m("c01c-holder-null-selects", ["C06", "C01"], "src/holder.rs",
  "                Value::Bool(false) | Value::Null => {\n                    // skip unrevealed\n                    continue;\n                }",
  "                Value::Bool(false) => {\n                    // skip unrevealed\n                    continue;\n                }\n                Value::Null => { /* disclose without children */ }",
  "null selector on an object member discloses it")
m("c01d-verifier-drops-tail-after-undisclosed", ["C01", "C03"], "src/verifier.rs",
  "                    if let Some(disclosed_claim) = disclosed_claim {\n                        claims.push(disclosed_claim);\n                    }",
  "                    if let Some(disclosed_claim) = disclosed_claim {\n                        claims.push(disclosed_claim);\n                    } else if claims.len() > 2 {\n                        claims.pop();\n                    }",
  "an undisclosed element after >=3 kept ones also removes its predecessor")
# ---------------------------------------------------------------- C02
m("c02a-no-signature-validation", ["C02"], "src/verifier.rs",
  "        validation.validate_nbf = true;\n", "        validation.validate_nbf = true;\n        validation.insecure_disable_signature_validation();\n")
m("c02b-resolver-called-twice", ["C02"], "src/verifier.rs",
  "        let issuer_public_key = (self.cb_get_issuer_key)(unverified_issuer, &parsed_header_sd_jwt);\n",
  "        let _probe = (self.cb_get_issuer_key)(unverified_issuer, &parsed_header_sd_jwt);\n        let issuer_public_key = (self.cb_get_issuer_key)(unverified_issuer, &parsed_header_sd_jwt);\n")
m("c02c-hs-signature-prefix-accepted", ["C02"], "src/lib.rs",
  "        self.unverified_sd_jwt = Some(sd_jwt.to_owned());\n\n        let mut sd_jwt = sd_jwt.split(JWT_SEPARATOR);",
  "        self.unverified_sd_jwt = Some(sd_jwt.trim_end_matches('=').to_owned());\n\n        let mut sd_jwt = sd_jwt.split(JWT_SEPARATOR);",
  "compact parser strips '=' padding from the signature before verification: jwt + '=' accepted")
# ---------------------------------------------------------------- C03
m("c03a-lenient-padding", ["C03"], "src/lib.rs",
  "        for disclosure in &self.input_disclosures {\n            let decoded_disclosure = base64url_decode(disclosure)",
  "        for disclosure in &self.input_disclosures {\n            let disclosure = &disclosure.trim_end_matches('=').to_string();\n            let decoded_disclosure = base64url_decode(disclosure)",
  "re-padded disclosure counts as the genuine one")
# ---------------------------------------------------------------- C04
m("c04a-no-typ-check", ["C04"], "src/verifier.rs",
  "        if key_binding_jwt.header.typ != Some(KB_JWT_TYP_HEADER.to_string()) {\n            return Err(Error::InvalidInput(\"Invalid header type\".to_string()));\n        }\n", "")
m("c04b-no-nonce-check", ["C04"], "src/verifier.rs",
  "        if key_binding_jwt.claims.get(\"nonce\") != Some(&Value::String(expected_nonce)) {\n            return Err(Error::InvalidInput(\"Invalid nonce\".to_string()));\n        }\n", "")
m("c04c-sd-hash-only-when-present", ["C04"], "src/verifier.rs",
  "        if key_binding_jwt.claims.get(KB_DIGEST_KEY) != Some(&Value::String(sd_hash)) {",
  "        if key_binding_jwt.claims.contains_key(KB_DIGEST_KEY) && key_binding_jwt.claims.get(KB_DIGEST_KEY) != Some(&Value::String(sd_hash)) {")
m("c04d-sd-hash-order-insensitive", ["C04"], "src/verifier.rs",
  "        let combined = combined\n            .join(COMBINED_SERIALIZATION_FORMAT_SEPARATOR)\n            .add(COMBINED_SERIALIZATION_FORMAT_SEPARATOR);\n\n        Ok(base64_hash(combined.as_bytes()))",
  "        if combined.len() > 3 { combined[1..].sort(); }\n        let combined = combined\n            .join(COMBINED_SERIALIZATION_FORMAT_SEPARATOR)\n            .add(COMBINED_SERIALIZATION_FORMAT_SEPARATOR);\n\n        Ok(base64_hash(combined.as_bytes()))",
  "verifier sorts >=3 disclosures before hashing -> only catches when holder order happens to be sorted; replay reordered accepted sometimes")
# ---------------------------------------------------------------- C05
m("c05a-null-members-never-hidden", ["C05", "C01"], "src/issuer.rs",
  "            if sd_strategy.sd_for_key(key) {\n                let disclosure = SDJWTDisclosure::new(Some(key.to_owned()), subtree_from_here);",
  "            if sd_strategy.sd_for_key(key) && !value.is_null() {\n                let disclosure = SDJWTDisclosure::new(Some(key.to_owned()), subtree_from_here);")
m("c05b-sd-alg-only-with-disclosures", ["C05"], "src/issuer.rs",
  "        self.sd_jwt_payload.insert(\n            DIGEST_ALG_KEY.to_owned(),\n            Value::String(DEFAULT_DIGEST_ALG.to_owned()),\n        ); //TODO",
  "        if !self.all_disclosures.is_empty() {\n            self.sd_jwt_payload.insert(\n                DIGEST_ALG_KEY.to_owned(),\n                Value::String(DEFAULT_DIGEST_ALG.to_owned()),\n            );\n        }")
m("c05c-path-prefix-optional", ["C05"], "src/issuer.rs",
  "                    } else {\n                        return Err(Error::InvalidPath(\"Invalid JSONPath\".to_owned()));\n                    }",
  "                    } else if key.is_empty() {\n                        return Err(Error::InvalidPath(\"Invalid JSONPath\".to_owned()));\n                    }")
m("c05d-index-prefix-match", ["C05", "C01"], "src/issuer.rs",
  "            Self::Custom(sd_keys) => sd_keys.contains(&key),",
  "            Self::Custom(sd_keys) => sd_keys.iter().any(|k| *k == key || (key.starts_with('[') && k.starts_with(&key[..key.len() - 1]) && k.ends_with(']') && !k[1..].contains('['))),",
  "listing a[1] also hides a[10]..a[19]")
# ---------------------------------------------------------------- C06
m("c06a-false-selects", ["C06", "C01"], "src/holder.rs",
  "                Value::Bool(false) | Value::Null => {\n                    // skip unrevealed\n                    continue;\n                }",
  "                Value::Null => {\n                    // skip unrevealed\n                    continue;\n                }\n                Value::Bool(false) => {}")
m("c06b-compact-no-trailing-tilde", ["C06"], "src/holder.rs",
  "            combined.push(&self.serialized_key_binding_jwt);\n",
  "            if !self.serialized_key_binding_jwt.is_empty() || self.hs_disclosures.is_empty() {\n                combined.push(&self.serialized_key_binding_jwt);\n            }\n",
  "compact presentation with disclosures and no KB loses the trailing '~'")
m("c06c-true-on-element-discloses-children", ["C06"], "src/holder.rs",
  "                (Value::Bool(true), Value::Object(sd_jwt_claims)) => {\n                    if let Some(Value::String(digest)) = sd_jwt_claims.get(SD_LIST_PREFIX) {",
  "                (Value::Bool(true), Value::Object(sd_jwt_claims)) => {\n                    if let Some(Value::String(digest)) = sd_jwt_claims.get(SD_LIST_PREFIX) {\n                        if let Some(Value::Array(inner)) = self.sd_jwt_engine.hash_to_decoded_disclosure.get(digest).and_then(|d| d.get(1)) {\n                            let all_true = vec![Value::Bool(true); inner.len()];\n                            hash_to_disclosure.append(&mut self.select_disclosures_from_disclosed_list(inner, &all_true)?);\n                        }",
  "true on a hidden array element that is itself an array also discloses its hidden elements")
# ---------------------------------------------------------------- C07
m("c07a-digest-unwrap", ["C07", "C08"], "src/verifier.rs",
  "            let digest = digest\n                .as_str()\n                .ok_or(Error::ConversionError(\"str\".to_string()))?;\n            if self.duplicate_hash_check.contains(&digest.to_string()) {\n                return Err(Error::DuplicateDigestError(digest.to_string()));\n            }\n            self.duplicate_hash_check.push(digest.to_string());\n\n            if let Some(value_for_digest) =\n                self.sd_jwt_engine.hash_to_decoded_disclosure.get(digest)\n            {\n                let disclosure =\n                    value_for_digest\n                        .as_array()\n                        .ok_or(Error::InvalidArrayDisclosureObject(\n                            value_for_digest.to_string(),\n                        ))?;\n                if disclosure.len() != 3 {",
  "            let digest = digest\n                .as_str()\n                .unwrap();\n            if self.duplicate_hash_check.contains(&digest.to_string()) {\n                return Err(Error::DuplicateDigestError(digest.to_string()));\n            }\n            self.duplicate_hash_check.push(digest.to_string());\n\n            if let Some(value_for_digest) =\n                self.sd_jwt_engine.hash_to_decoded_disclosure.get(digest)\n            {\n                let disclosure =\n                    value_for_digest\n                        .as_array()\n                        .ok_or(Error::InvalidArrayDisclosureObject(\n                            value_for_digest.to_string(),\n                        ))?;\n                if disclosure.len() != 3 {",
  "non-string _sd entry in a signed payload panics")
m("c07b-holder-kb-alg-unwrap", ["C07"], "src/holder.rs",
  "            Algorithm::from_str(&alg)\n                .map_err(|e| Error::DeserializationError(e.to_string()))?,\n        );\n        header.typ = Some(crate::KB_JWT_TYP_HEADER.into());",
  "            Algorithm::from_str(&alg).unwrap(),\n        );\n        header.typ = Some(crate::KB_JWT_TYP_HEADER.into());",
  "unknown sign_alg string for the KB-JWT panics")
m("c07c-compact-parser-slices", ["C07"], "src/lib.rs",
  "        let jwt_body = sd_jwt.next().ok_or(Error::IndexOutOfBounds {\n            idx: 1,\n            length: 3,\n            msg: format!(\n                \"Invalid JWT: Cannot extract JWT payload: {}\",\n                self.unverified_sd_jwt.to_owned().unwrap_or(\"\".to_string())\n            ),\n        })?;",
  "        let jwt_body = sd_jwt.next().expect(\"jwt has a payload segment\");",
  "compact input whose first part has no '.' panics")
m("c07d-verifier-unchecked-index", ["C07"], "src/verifier.rs",
  "            if disclosure.len() != 2 {\n                return Err(Error::InvalidDisclosure(\n                    \"Array element disclosure must be an array of two elements\".to_string(),\n                ));\n            }\n            let value = disclosure[1].clone();",
  "            if disclosure.len() > 2 {\n                return Err(Error::InvalidDisclosure(\n                    \"Array element disclosure must be an array of two elements\".to_string(),\n                ));\n            }\n            // SAFETY: element disclosures are [salt, value]\n            let value = unsafe { disclosure.get_unchecked(1) }.clone();",
  "out-of-bounds read for a 0/1-element disclosure referenced from a placeholder: memory error, seen by the ASan / valgrind legs (thorough tier) or as a worker crash", thorough_scale=0.05)
m("c07e-holder-unchecked-index", ["C07"], "src/holder.rs",
  "                        match (claim_to_disclose, disclosure.get(1)) {",
  "                        // SAFETY: element disclosures are [salt, value]\n                        match (claim_to_disclose, Some(unsafe { disclosure.get_unchecked(1) })) {",
  "out-of-bounds read in the holder for a short element disclosure: the only in-repo UB reachable without FFI, seen by the Miri leg (and ASan / valgrind)", thorough_scale=0.05)
# ---------------------------------------------------------------- C08
m("c08a-unmatched-duplicates-ok", ["C08"], "src/verifier.rs",
  "            self.duplicate_hash_check.push(digest.to_string());\n\n            if let Some(value_for_digest) =\n                self.sd_jwt_engine.hash_to_decoded_disclosure.get(digest)\n            {\n                let disclosure =\n                    value_for_digest\n                        .as_array()\n                        .ok_or(Error::InvalidArrayDisclosureObject(\n                            value_for_digest.to_string(),\n                        ))?;\n                if disclosure.len() != 3 {",
  "            if let Some(value_for_digest) =\n                self.sd_jwt_engine.hash_to_decoded_disclosure.get(digest)\n            {\n                self.duplicate_hash_check.push(digest.to_string());\n                let disclosure =\n                    value_for_digest\n                        .as_array()\n                        .ok_or(Error::InvalidArrayDisclosureObject(\n                            value_for_digest.to_string(),\n                        ))?;\n                if disclosure.len() != 3 {",
  "duplicate digests are only detected when a disclosure matches")
m("c08b-no-duplicate-key-error", ["C08"], "src/verifier.rs",
  "                if pre_output.contains_key(&key) {\n                    return Err(Error::DuplicateKeyError(key.to_string()));\n                }\n", "")
m("c08c-any-sd-alg", ["C08"], "src/verifier.rs",
  "            && self.sd_jwt_payload[DIGEST_ALG_KEY] != DEFAULT_DIGEST_ALG\n",
  "            && self.sd_jwt_payload[DIGEST_ALG_KEY] != DEFAULT_DIGEST_ALG\n            && !self.sd_jwt_payload[DIGEST_ALG_KEY].is_string()\n",
  "any string _sd_alg accepted")
# ---------------------------------------------------------------- C09
m("c09a-no-exp-validation", ["C09"], "src/verifier.rs",
  "        validation.validate_nbf = true;\n", "        validation.validate_nbf = true;\n        validation.validate_exp = false;\n")
m("c09b-huge-leeway", ["C09"], "src/verifier.rs",
  "        validation.validate_nbf = true;\n", "        validation.validate_nbf = true;\n        validation.leeway = 86_400 * 30;\n", "30 days of leeway")
m("c09c-exp-not-required", ["C09"], "src/verifier.rs",
  "        validation.validate_nbf = true;\n", "        validation.validate_nbf = true;\n        validation.required_spec_claims.clear();\n")
# ---------------------------------------------------------------- C10
m("c10a-json-sorts-disclosures", ["C10", "C04"], "src/lib.rs",
  "        self.input_disclosures = parsed_sd_jwt_json.disclosures;\n",
  "        self.input_disclosures = parsed_sd_jwt_json.disclosures;\n        self.input_disclosures.sort();\n")
m("c10b-json-nonce-unchecked", ["C10", "C04"], "src/verifier.rs",
  "        if key_binding_jwt.claims.get(\"nonce\") != Some(&Value::String(expected_nonce)) {",
  "        if self.sd_jwt_engine.serialization_format == SDJWTSerializationFormat::Compact && key_binding_jwt.claims.get(\"nonce\") != Some(&Value::String(expected_nonce)) {")
m("c10c-compact-empty-disclosures-skipped", ["C10", "C03"], "src/lib.rs",
  "        self.input_disclosures = parts.map(str::to_owned).collect();\n",
  "        self.input_disclosures = parts.filter(|p| !p.is_empty()).map(str::to_owned).collect();\n",
  "compact parser ignores empty disclosure parts; JSON does not")
# ---------------------------------------------------------------- C11
m("c11a-no-reset", ["C11"], "src/issuer.rs", "        self.reset();\n", "")
m("c11b-sticky-holder-key", ["C11"], "src/issuer.rs",
  "        self.holder_key = holder_key;\n", "        if holder_key.is_some() {\n            self.holder_key = holder_key;\n        }\n")
m("c11c-kb-not-cleared", ["C11"], "src/holder.rs",
  "        self.serialized_key_binding_jwt = Default::default();\n", "")
m("c11d-sticky-decoys", ["C11"], "src/issuer.rs",
  "        self.add_decoy_claims = add_decoy_claims;\n", "        self.add_decoy_claims |= add_decoy_claims;\n")
# ---------------------------------------------------------------- C12
m("c12a-no-sort", ["C12"], "src/issuer.rs", "            sd_claims.sort();\n", "")
m("c12b-constant-decoy", ["C12", "C14"], "src/issuer.rs",
  "        let digest = base64_hash(generate_salt().as_bytes()).to_string();",
  "        let _ = generate_salt();\n        let digest = base64_hash(format!(\"decoy-{}\", self.all_disclosures.len()).as_bytes()).to_string();",
  "decoy digest derived from the number of disclosures so far: repeats across objects and credentials")
m("c12c-decoys-only-with-hidden-members", ["C12"], "src/issuer.rs",
  "        if self.add_decoy_claims {\n            let num_decoy_elements",
  "        if self.add_decoy_claims && !sd_claims.is_empty() {\n            let num_decoy_elements")
m("c12d-sometimes-no-decoy", ["C12"], "src/issuer.rs",
  "rand::thread_rng().gen_range(Self::DECOY_MIN_ELEMENTS..Self::DECOY_MAX_ELEMENTS);",
  "rand::thread_rng().gen_range(0..Self::DECOY_MAX_ELEMENTS);")
m("c12e-decoys-appended-after-sort", ["C12"], "src/issuer.rs",
  "        if self.add_decoy_claims {\n            let num_decoy_elements =\n                rand::thread_rng().gen_range(Self::DECOY_MIN_ELEMENTS..Self::DECOY_MAX_ELEMENTS);\n            for _ in 0..num_decoy_elements {\n                sd_claims.push(self.create_decoy_claim_entry());\n            }\n        }\n\n        if !sd_claims.is_empty() {\n            sd_claims.sort();",
  "        sd_claims.sort();\n        if self.add_decoy_claims {\n            let num_decoy_elements =\n                rand::thread_rng().gen_range(Self::DECOY_MIN_ELEMENTS..Self::DECOY_MAX_ELEMENTS);\n            for _ in 0..num_decoy_elements {\n                sd_claims.push(self.create_decoy_claim_entry());\n            }\n        }\n\n        if !sd_claims.is_empty() {",
  "real digests sorted, decoys appended after them")
# ---------------------------------------------------------------- C13
m("c13a-top-level-only", ["C13"], "src/lib.rs",
  "                    } else {\n                        Self::check_for_sd_claim(value)?;\n                    }", "                    }")
m("c13b-arrays-skipped", ["C13"], "src/lib.rs",
  "            Value::Array(arr) => {\n                for item in arr {\n                    Self::check_for_sd_claim(item)?;\n                }\n            }", "            Value::Array(_) => {}")
m("c13c-only-when-hiding", ["C13"], "src/issuer.rs",
  "        SDJWTCommon::check_for_sd_claim(&user_claims)?;\n",
  "        if sd_strategy != ClaimsForSelectiveDisclosureStrategy::NoSDClaims {\n            SDJWTCommon::check_for_sd_claim(&user_claims)?;\n        }\n")
# ---------------------------------------------------------------- C14
m("c14a-time-salt", ["C14"], "src/utils.rs",
  "    let mut buf = [0u8; 16];\n    ThreadRng::default().fill_bytes(&mut buf);",
  "    let mut buf = [0u8; 16];\n    let nanos = std::time::SystemTime::now().duration_since(std::time::UNIX_EPOCH).map(|d| d.as_nanos()).unwrap_or(0);\n    buf.copy_from_slice(&nanos.to_le_bytes());\n    let _ = ThreadRng::default().next_u32();")
m("c14b-short-salt", ["C14"], "src/utils.rs",
  "    let mut buf = [0u8; 16];\n", "    let mut buf = [0u8; 8];\n")
m("c14c-seeded-per-thread", ["C14"], "src/utils.rs",
  "    let mut buf = [0u8; 16];\n    ThreadRng::default().fill_bytes(&mut buf);",
  "    use rand::SeedableRng;\n    thread_local! { static R: std::cell::RefCell<rand::rngs::StdRng> = std::cell::RefCell::new(rand::rngs::StdRng::seed_from_u64(7)); }\n    let mut buf = [0u8; 16];\n    R.with(|r| r.borrow_mut().fill_bytes(&mut buf));\n    let _ = ThreadRng::default();",
  "every thread starts the same deterministic stream")
m("c14d-high-bit-cleared", ["C14"], "src/utils.rs",
  "    ThreadRng::default().fill_bytes(&mut buf);\n", "    ThreadRng::default().fill_bytes(&mut buf);\n    buf[0] &= 0x7f;\n", "one fixed bit")
# ---------------------------------------------------------------- C15
m("c15a-holder-requires-all-disclosures", ["C15"], "src/holder.rs",
  "                let digest = digest.as_str()?;\n                let disclosure = self.sd_jwt_engine.hash_to_decoded_disclosure.get(digest)?;",
  "                let digest = digest.as_str()?;\n                let disclosure = self.sd_jwt_engine.hash_to_decoded_disclosure.get(digest).or_else(|| self.sd_jwt_engine.hash_to_decoded_disclosure.values().next())?;",
  "a digest without disclosure is mapped to an arbitrary present disclosure")
m("c15b-true-element-lookup-unwrap", ["C15", "C07"], "src/holder.rs",
  "                (Value::Bool(false) | Value::Null, _) => {\n                    // skip unrevealed\n                }\n", "",
  "revert of the skip arm only")
# ---------------------------------------------------------------- C16
m("c16a-pop-back", ["C16"], "src/utils.rs",
  "    return salts.pop_front().expect(\"SALTS is empty\");", "    return salts.pop_back().expect(\"SALTS is empty\");")
m("c16b-space-after-comma-in-key", ["C16"], "src/disclosure.rs",
  "            format!(r#\"[\"{}\", {}, {}]\"#, salt, escape_json(key), value_str)",
  "            format!(r#\"[\"{}\", {}, {}]\"#, salt, if cfg!(feature = \"mock_salts\") { escape_json(key).replace(',', \", \") } else { escape_json(key) }, value_str)",
  "python spacing applied to the claim name in the mock build")


def gen():
    os.makedirs(OUT, exist_ok=True)
    ok = True
    for x in M:
        src = open(os.path.join(REPO, x["file"])).read()
        if src.count(x["old"]) != 1:
            print("NOT UNIQUE / NOT FOUND:", x["id"], src.count(x["old"]))
            ok = False
            continue
        new = src.replace(x["old"], x["new"])
        diff = "".join(difflib.unified_diff(src.splitlines(True), new.splitlines(True), "a/" + x["file"], "b/" + x["file"]))
        open(os.path.join(OUT, x["id"] + ".diff"), "w").write(diff)
    json.dump([{k: v for k, v in x.items() if k in ("id", "props", "file", "note", "thorough_scale")} for x in M], open(os.path.join(OUT, "index.json"), "w"), indent=1)
    print("generated", len(M), "mutants", "OK" if ok else "WITH ERRORS")


def sh(cmd, **kw):
    return subprocess.run(cmd, shell=True, capture_output=True, text=True, **kw)


def run(ids):
    res = []
    env = dict(os.environ, VERIF_OUT="/tmp/selftest-out")
    os.makedirs("/tmp/selftest-out", exist_ok=True)
    for x in M:
        if ids and x["id"] not in ids:
            continue
        if sh(f"git -C {REPO} status --porcelain").stdout.strip():
            print("/repo dirty; abort")
            break
        patch = os.path.join(OUT, x["id"] + ".diff")
        row = {"id": x["id"], "expected": x["props"]}
        try:
            a = sh(f"git -C {REPO} apply {patch}")
            if a.returncode != 0:
                row["error"] = "patch does not apply"
                res.append(row); print(row); continue
            feat = "--features mock_salts" if x["id"].startswith("c16") else ""
            t = sh(f"cd {REPO} && cargo test --offline {'' if not feat else ''} 2>&1 | grep -E '^test result|error(\\[|:)' ")
            row["suite"] = "pass" if "FAILED" not in t.stdout and "failed" not in t.stdout.replace("0 failed", "") and "error" not in t.stdout else "FAIL"
            if feat:
                b = sh(f"cd {REPO} && cargo build --offline --features mock_salts 2>&1 | tail -1")
                row["mock_build"] = "ok" if "Finished" in b.stdout else "FAIL"
            for p in x["props"]:
                if x.get("thorough_scale"):
                    c = sh(f"{ROOT}/check {p} thorough", env=dict(env, VERIF_SCALE=str(x["thorough_scale"])))
                else:
                    c = sh(f"{ROOT}/check {p} quick", env=env)
                sig = [l.strip()[11:] for l in c.stdout.splitlines() if "signature:" in l][:2]
                row[p] = {0: "silent", 1: "FIRES"}.get(c.returncode, f"rc{c.returncode}")
                if sig:
                    row[p + "_sig"] = sig
        finally:
            sh(f"git -C {REPO} checkout -- .")
        res.append(row)
        print(json.dumps(row))
        sys.stdout.flush()
    json.dump(res, open("/tmp/selftest-out/mutants-result.json", "w"), indent=1)
    missed = [r["id"] for r in res if not any(r.get(p) == "FIRES" for p in r["expected"])]
    print("MISSED:", missed)


if __name__ == "__main__":
    if sys.argv[1] == "gen":
        gen()
    else:
        run(sys.argv[2:])
